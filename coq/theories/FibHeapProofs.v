(* C16: invariant and multiset refinement of the Fibonacci-heap model, for every history and every strict
   total order on the keys. *)
From Coq Require Import List Bool ZArith Lia Permutation.
Require Import GT.PyBase GT.FibHeapSpec GT.FibHeapModel.
Import ListNotations.
Open Scope Z_scope.

(* entries of a tree: (key, id, deleted) of every node *)
Notation ent := (Z * Z * bool)%type (only parsing).
Definition ekey (e : ent) : Z := fst (fst e).
Definition eid (e : ent) : Z := snd (fst e).
Definition edel (e : ent) : bool := snd e.

Fixpoint ents (t : hnode) : list ent :=
  match t with HNode i k m d ks => (k, i, d) :: flat_map ents ks end.
Definition entsl (l : list hnode) : list ent := flat_map ents l.
Definition nent (t : hnode) : ent := (nkey t, nid t, ndel t).

Lemma hnode_ind' (P : hnode -> Prop) :
  (forall i k m d ks, Forall P ks -> P (HNode i k m d ks)) -> forall t, P t.
Proof.
  intros H. fix IH 1. intros [i k m d ks]. apply H.
  induction ks as [|c r IHr]; constructor; auto.
Qed.

Lemma ents_unfold t : ents t = nent t :: entsl (nkids t).
Proof. destruct t; reflexivity. Qed.

Lemma entsl_app a b : entsl (a ++ b) = entsl a ++ entsl b.
Proof. unfold entsl. apply flat_map_app. Qed.

Lemma entsl_cons x l : entsl (x :: l) = ents x ++ entsl l.
Proof. reflexivity. Qed.

Lemma ents_set_mark m t : ents (set_mark m t) = ents t.
Proof. destruct t; reflexivity. Qed.

Lemma entsl_ring_add x l : Permutation (entsl (ring_add x l)) (ents x ++ entsl l).
Proof.
  destruct l as [|r rest]; unfold ring_add.
  - reflexivity.
  - rewrite !entsl_cons. rewrite !app_assoc. apply Permutation_app_tail. apply Permutation_app_comm.
Qed.

Lemma ents_add_child y x : Permutation (ents (add_child y x)) (ents x ++ ents y).
Proof.
  destruct x as [i k m d ks]. unfold add_child, set_kids. simpl.
  constructor. change (flat_map ents) with entsl.
  rewrite entsl_ring_add, ents_set_mark. apply Permutation_app_comm.
Qed.

Lemma nid_add_child y x : nid (add_child y x) = nid x.
Proof. destruct x; reflexivity. Qed.
Lemma nkey_add_child y x : nkey (add_child y x) = nkey x.
Proof. destruct x; reflexivity. Qed.
Lemma ndel_add_child y x : ndel (add_child y x) = ndel x.
Proof. destruct x; reflexivity. Qed.

Lemma In_ring_add {A : Type} (P : hnode -> Prop) x l : P x -> Forall P l -> Forall P (ring_add x l).
Proof. intros Hx Hl. destruct l; simpl; [auto|]. inversion Hl; subst. auto. Qed.

(* ---- a small solver for Permutation goals between concatenations of the same atoms ---- *)
Lemma perm_find_head {A} (a l r1 r2 : list A) :
  Permutation l (r1 ++ r2) -> Permutation (a ++ l) (r1 ++ a ++ r2).
Proof.
  intros H. rewrite H. rewrite !app_assoc. apply Permutation_app_tail. apply Permutation_app_comm.
Qed.

Ltac perm_norm :=
  repeat match goal with
         | |- context [?x :: ?l] => lazymatch l with nil => fail | _ => change (x :: l) with ([x] ++ l) end
         end;
  match goal with |- Permutation ?L ?R => rewrite <- (app_nil_r L), <- (app_nil_r R) end;
  rewrite <- ?app_assoc; rewrite ?app_nil_l.

Ltac perm_split a R :=
  lazymatch R with
  | a ++ ?r2 => constr:((@nil ent, r2))
  | ?b ++ ?R' => let p := perm_split a R' in
                 lazymatch p with (?r1, ?r2) => constr:((b ++ r1, r2)) end
  end.

Ltac perm_step :=
  lazymatch goal with
  | |- Permutation [] [] => reflexivity
  | |- Permutation (?a ++ ?L) ?R =>
      let p := perm_split a R in
      lazymatch p with
      | (?r1, ?r2) =>
          transitivity (r1 ++ a ++ r2);
          [apply perm_find_head; rewrite <- ?app_assoc; rewrite ?app_nil_l
          |rewrite <- ?app_assoc; rewrite ?app_nil_l; reflexivity]
      end
  end.

Ltac perm := perm_norm; repeat perm_step.

Section Order.
Variable lt : Z -> Z -> bool.
Hypothesis lt_irrefl : forall a, lt a a = false.
Hypothesis lt_trans : forall a b c, lt a b = true -> lt b c = true -> lt a c = true.
Hypothesis lt_total : forall a b, lt a b = true \/ a = b \/ lt b a = true.

Lemma lt_asym a b : lt a b = true -> lt b a = false.
Proof.
  intros H. destruct (lt b a) eqn:E; auto.
  rewrite <- (lt_irrefl a). symmetry. eapply lt_trans; eauto.
Qed.

Lemma lt_negtrans a b c : lt a b = false -> lt b c = false -> lt a c = false.
Proof.
  intros H1 H2. destruct (lt a c) eqn:E; auto.
  destruct (lt_total b a) as [H|[H|H]].
  - rewrite (lt_trans _ _ _ H E) in H2. discriminate.
  - subst. congruence.
  - congruence.
Qed.

(* heap order: no child key is strictly less than its parent's *)
Inductive hord : hnode -> Prop :=
| hord_i : forall i k m d ks, Forall (fun c => lt (nkey c) k = false) ks -> Forall hord ks ->
    hord (HNode i k m d ks).

Lemma hord_inv t : hord t -> Forall (fun c => lt (nkey c) (nkey t) = false) (nkids t) /\ Forall hord (nkids t).
Proof. intros H. inversion H; subst. simpl. auto. Qed.

Lemma hord_set_mark m t : hord t -> hord (set_mark m t).
Proof. intros H. inversion H; subst. constructor; auto. Qed.

Lemma nkey_set_mark m t : nkey (set_mark m t) = nkey t.
Proof. destruct t; reflexivity. Qed.

Lemma hord_add_child y x : hord x -> hord y -> lt (nkey y) (nkey x) = false -> hord (add_child y x).
Proof.
  intros Hx Hy Hk. inversion Hx; subst. unfold add_child, set_kids. simpl in *.
  constructor.
  - apply (@In_ring_add unit); auto; rewrite nkey_set_mark; auto.
  - apply (@In_ring_add unit); auto; apply hord_set_mark; auto.
Qed.

(* the root of a heap-ordered tree carries a minimal key *)
Lemma hord_min t : hord t -> Forall (fun e => lt (ekey e) (nkey t) = false) (ents t).
Proof.
  induction t as [i k m d ks IH] using hnode_ind'. intros H. inversion H as [? ? ? ? ? Hk Hh]; subst. simpl.
  constructor; [apply lt_irrefl|].
  apply Forall_flat_map. rewrite Forall_forall in *. intros c Hc.
  specialize (IH c Hc (Hh c Hc)). rewrite Forall_forall in *. intros e He.
  eapply lt_negtrans; [apply IH; auto|]. apply Hk; auto.
Qed.


(* ---- _consolidate ---- *)
Definition G (t : hnode) : Prop := hord t /\ ndel t = false.

Lemma node_lt_clean a b : ndel a = false -> ndel b = false -> node_lt lt a b = lt (nkey a) (nkey b).
Proof. intros Ha Hb. unfold node_lt. rewrite Ha. reflexivity. Qed.

Lemma G_link_lt y x : G x -> G y -> node_lt lt y x = true -> G (add_child x y).
Proof.
  intros [Hx Dx] [Hy Dy] H. rewrite node_lt_clean in H by auto. split.
  - apply hord_add_child; auto. apply lt_asym; auto.
  - rewrite ndel_add_child. auto.
Qed.

Lemma G_link_ge y x : G x -> G y -> node_lt lt y x = false -> G (add_child y x).
Proof.
  intros [Hx Dx] [Hy Dy] H. rewrite node_lt_clean in H by auto. split.
  - apply hord_add_child; auto.
  - rewrite ndel_add_child. auto.
Qed.

Lemma split_deg_spec d l a y b : split_deg d l = Some (a, y, b) -> l = a ++ y :: b.
Proof.
  revert a y b. induction l as [|u r IH]; simpl; intros a y b H; [discriminate|].
  destruct (Nat.eqb (deg u) d).
  - inversion H; subst. reflexivity.
  - destruct (split_deg d r) as [[[a' y'] b']|]; [|discriminate].
    inversion H; subst. simpl. f_equal. apply IH. reflexivity.
Qed.

Ltac ex := repeat (rewrite entsl_app || rewrite entsl_cons).
Ltac fa := repeat (rewrite Forall_app in * || rewrite Forall_cons_iff in *).

Lemma cons_loop_spec fuel : forall pre x post r,
  cons_loop lt fuel pre x post = Some r -> Forall G (pre ++ x :: post) ->
  Permutation (entsl r) (entsl (pre ++ x :: post)) /\ Forall G r.
Proof.
  induction fuel as [|f IH]; simpl; intros pre x post r H HG; [discriminate|].
  destruct (split_deg (deg x) pre) as [[[a y] b]|] eqn:E1.
  - apply split_deg_spec in E1. subst pre. fa.
    destruct HG as [[Ha [Hy Hb]] [Hx Hp]].
    destruct (node_lt lt y x) eqn:L; apply IH in H.
    + destruct H as [P Q]. split; auto. rewrite P.
      ex. rewrite ents_add_child. perm.
    + fa. auto 10 using G_link_lt.
    + destruct H as [P Q]. split; auto. rewrite P.
      ex. rewrite ents_add_child. perm.
    + fa. auto 10 using G_link_ge.
  - destruct (split_deg (deg x) post) as [[[a y] b]|] eqn:E2.
    + apply split_deg_spec in E2. subst post. fa.
      destruct HG as [Hpre [Hx [Ha [Hy Hb]]]].
      destruct (node_lt lt y x) eqn:L; apply IH in H.
      * destruct H as [P Q]. split; auto. rewrite P.
        ex. rewrite ents_add_child. perm.
      * fa. auto 10 using G_link_lt.
      * destruct H as [P Q]. split; auto. rewrite P.
        ex. rewrite ents_add_child. perm.
      * fa. auto 10 using G_link_ge.
    + inversion H; subst. split; auto.
Qed.

(* the fuel of the inner `while` suffices: every iteration removes one root from the degree table *)
Lemma cons_loop_fuel fuel : forall pre x post,
  (length pre + length post < fuel)%nat -> exists r, cons_loop lt fuel pre x post = Some r.
Proof.
  induction fuel as [|f IH]; intros pre x post Hlen; [lia|]. simpl.
  destruct (split_deg (deg x) pre) as [[[a y] b]|] eqn:E1.
  - apply split_deg_spec in E1. subst pre. rewrite app_length in Hlen. simpl in Hlen.
    destruct (node_lt lt y x); apply IH; rewrite ?app_length; lia.
  - destruct (split_deg (deg x) post) as [[[a y] b]|] eqn:E2.
    + apply split_deg_spec in E2. subst post. rewrite app_length in Hlen. simpl in Hlen.
      destruct (node_lt lt y x); apply IH; rewrite ?app_length; lia.
    + eauto.
Qed.

Lemma cons_fold_total : forall todo acc, exists r, cons_fold lt acc todo = Some r.
Proof.
  induction todo as [|x rest IH]; intros acc; simpl; [eauto|].
  destruct (cons_loop_fuel (S (length acc)) acc x []) as [r Hr]; [simpl; lia|].
  simpl in Hr. rewrite Hr. apply IH.
Qed.

Lemma cons_fold_spec : forall todo acc r,
  cons_fold lt acc todo = Some r -> Forall G (acc ++ todo) ->
  Permutation (entsl r) (entsl (acc ++ todo)) /\ Forall G r.
Proof.
  induction todo as [|x rest IH]; intros acc r H HG.
  - simpl in H. inversion H; subst. rewrite app_nil_r in *. auto.
  - cbn [cons_fold] in H.
    destruct (cons_loop lt (S (length acc)) acc x []) as [acc'|] eqn:E; [|discriminate].
    apply cons_loop_spec in E; [|fa; intuition].
    destruct E as [P Q]. apply IH in H; [|fa; intuition].
    destruct H as [P' Q']. split; auto. rewrite P'. ex. rewrite P. ex. perm.
Qed.

(* ---- the final scan for the new _min ---- *)
Lemma In_ins_deg x l y : In y (ins_deg x l) <-> y = x \/ In y l.
Proof.
  induction l as [|u r IH]; simpl.
  - intuition.
  - destruct (Nat.leb (deg x) (deg u)); simpl; rewrite ?IH; intuition.
Qed.

Lemma In_sort_deg l y : In y (sort_deg l) <-> In y l.
Proof.
  induction l as [|u r IH]; simpl; [tauto|]. rewrite In_ins_deg, IH. intuition.
Qed.

Lemma node_le_clean a b : ndel a = false -> ndel b = false ->
  node_le lt a b = lt (nkey a) (nkey b) || Z.eqb (nkey a) (nkey b).
Proof. intros. unfold node_le. rewrite node_lt_clean; auto. Qed.

Lemma scan_min_spec : forall L m, Forall (fun t => ndel t = false) L -> ndel m = false ->
  let res := scan_min lt L m in
  (In res L \/ (res = m /\ forall r, In r L -> node_le lt r m = false)) /\
  (forall r, In r L -> lt (nkey r) (nkey res) = false) /\
  lt (nkey m) (nkey res) = false.
Proof.
  induction L as [|r L IH]; intros m HL Hm; simpl.
  - split; [right; split; auto; intros ? []|]. split; [intros ? []|]. apply lt_irrefl.
  - inversion HL as [|? ? Hr HL']; subst.
    destruct (node_le lt r m) eqn:E.
    + destruct (IH r HL' Hr) as [A [B C]]. unfold scan_min in *.
      split; [destruct A as [A|[A _]]; [auto|left; left; auto]|].
      split; [intros r' [<-|Hr']; auto|].
      rewrite node_le_clean in E by auto.
      eapply lt_negtrans; [|apply C].
      apply orb_true_iff in E. destruct E as [E|E].
      * apply lt_asym; auto.
      * apply Z.eqb_eq in E. rewrite E. apply lt_irrefl.
    + destruct (IH m HL' Hm) as [A [B C]]. unfold scan_min in *.
      split; [destruct A as [A|[A A']]; [auto|right; split; auto; intros r' [<-|Hr']; auto]|].
      split; [|auto]. intros r' [<-|Hr']; auto.
      rewrite node_le_clean in E by auto. apply orb_false_iff in E. destruct E as [E _].
      eapply lt_negtrans; eauto.
Qed.

(* if some scanned root is not above m, the scan ends on a scanned root *)
Lemma scan_min_root L m r0 : Forall (fun t => ndel t = false) L -> ndel m = false ->
  In r0 L -> lt (nkey m) (nkey r0) = false -> In (scan_min lt L m) L.
Proof.
  intros HL Hm Hr0 Hk. destruct (scan_min_spec L m HL Hm) as [[A|[_ A]] _]; auto.
  specialize (A r0 Hr0). rewrite node_le_clean in A; auto.
  - apply orb_false_iff in A. destruct A as [A1 A2]. apply Z.eqb_neq in A2.
    destruct (lt_total (nkey r0) (nkey m)) as [T|[T|T]]; congruence.
  - rewrite Forall_forall in HL. auto.
Qed.

(* ---- _extract_min ---- *)
Lemma in_entsl e l : In e (entsl l) <-> exists t, In t l /\ In e (ents t).
Proof. unfold entsl. apply in_flat_map. Qed.

Lemma nent_in t : In (nent t) (ents t).
Proof. rewrite ents_unfold. left. reflexivity. Qed.

Lemma roots_min l k : Forall hord l -> (forall r, In r l -> lt (nkey r) k = false) ->
  Forall (fun e => lt (ekey e) k = false) (entsl l).
Proof.
  intros Hh Hr. apply Forall_forall. intros e He. apply in_entsl in He. destruct He as [t [Ht He]].
  rewrite Forall_forall in Hh. pose proof (hord_min t (Hh t Ht)) as Hm. rewrite Forall_forall in Hm.
  eapply lt_negtrans; [apply Hm; auto|]. auto.
Qed.

Lemma find_root_split z : forall l u, find_root z l = Some u ->
  exists p q, l = p ++ u :: q /\ Forall (fun r => nid r <> z) p /\ nid u = z.
Proof.
  induction l as [|r rest IH]; simpl; intros u H; [discriminate|].
  destruct (Z.eqb (nid r) z) eqn:E.
  - inversion H; subst. exists [], rest. apply Z.eqb_eq in E. auto.
  - apply IH in H. destruct H as [p [q [-> [Hp Hu]]]]. exists (r :: p), q.
    apply Z.eqb_neq in E. auto.
Qed.

Lemma zip_ops z u q f : forall p, Forall (fun r => nid r <> z) p -> nid u = z ->
  find_root z (p ++ u :: q) = Some u /\ del z (p ++ u :: q) = p ++ q /\
  next_after z f (p ++ u :: q) = Some (hd f q).
Proof.
  induction p as [|r p IH]; intros Hp Hu; simpl.
  - apply Z.eqb_eq in Hu. rewrite Hu. destruct q; auto.
  - inversion Hp as [|? ? Hr Hp']; subst. apply Z.eqb_neq in Hr. rewrite Hr.
    destruct (IH Hp' eq_refl) as [A [B C]]. rewrite A, B, C. auto.
Qed.

Lemma splice_cons : forall ks r rest, splice (r :: rest) ks = r :: rev ks ++ rest.
Proof.
  unfold splice. induction ks as [|c ks IH]; intros r rest; simpl; [reflexivity|].
  rewrite IH. rewrite <- app_assoc. reflexivity.
Qed.

Lemma entsl_rev l : Permutation (entsl (rev l)) (entsl l).
Proof.
  induction l as [|x l IH]; simpl; [reflexivity|]. ex. rewrite IH. simpl. rewrite app_nil_r.
  apply Permutation_app_comm.
Qed.

Definition min_ok (h : heap) : Prop :=
  match minp h with
  | None => roots h = []
  | Some m => exists r, In r (roots h) /\ nid r = m /\
                        Forall (fun e => lt (ekey e) (nkey r) = false) (entsl (roots h))
  end.

(* consolidation + scan on a non-empty clean heap-ordered root ring that contains nx *)
Lemma consolidate_ok l2 nx : l2 <> [] -> In nx l2 -> Forall G l2 ->
  exists l3, cons_fold lt [] l2 = Some l3 /\ Permutation (entsl l3) (entsl l2) /\ Forall hord l3 /\
    exists r, In r l3 /\ nid r = nid (scan_min lt (sort_deg l3) nx) /\
              Forall (fun e => lt (ekey e) (nkey r) = false) (entsl l3).
Proof.
  intros Hne Hnx HG. destruct (cons_fold_total l2 []) as [l3 H3]. exists l3. split; auto.
  destruct (cons_fold_spec l2 [] l3 H3 HG) as [P Q]. simpl in P. split; auto.
  assert (Hh : Forall hord l3) by (eapply Forall_impl; [|apply Q]; intros ? [? ?]; auto).
  assert (Hd : Forall (fun t => ndel t = false) l3) by (eapply Forall_impl; [|apply Q]; intros ? [? ?]; auto).
  split; auto.
  assert (Hdn : ndel nx = false) by (rewrite Forall_forall in HG; apply (HG nx Hnx)).
  assert (Hds : Forall (fun t => ndel t = false) (sort_deg l3)).
  { apply Forall_forall. intros t Ht. apply (proj1 (In_sort_deg _ _)) in Ht. rewrite Forall_forall in Hd. apply (Hd t Ht). }
  (* nx sits below some root r0 of l3 *)
  assert (He : In (nent nx) (entsl l3)).
  { eapply Permutation_in; [symmetry; apply P|]. apply in_entsl. exists nx. split; auto. apply nent_in. }
  apply in_entsl in He. destruct He as [r0 [Hr0 He]].
  assert (Hk : lt (nkey nx) (nkey r0) = false).
  { rewrite Forall_forall in Hh. pose proof (hord_min r0 (Hh r0 Hr0)) as Hm. rewrite Forall_forall in Hm.
    apply (Hm (nent nx) He). }
  pose proof (scan_min_root (sort_deg l3) nx r0 Hds Hdn (proj2 (In_sort_deg l3 r0) Hr0) Hk) as Hin.
  destruct (scan_min_spec (sort_deg l3) nx Hds Hdn) as [_ [B _]].
  exists (scan_min lt (sort_deg l3) nx). split; [apply (proj1 (In_sort_deg _ _)); auto|]. split; auto.
  apply roots_min; auto. intros r Hr. apply B. apply (proj2 (In_sort_deg _ _)). auto.
Qed.

Lemma extract_core h z u p' q' :
  minp h = Some z -> find_root z (roots h) = Some u ->
  splice (roots h) (nkids u) = p' ++ u :: q' ->
  Forall (fun r => nid r <> z) p' -> nid u = z -> Forall G (p' ++ q') ->
  exists h', extract_min lt h = XOk u h' /\ Permutation (entsl (roots h')) (entsl (p' ++ q')) /\
             Forall hord (roots h') /\ hn h' = hn h - 1 /\ min_ok h'.
Proof.
  intros Hm Hf Hs Hp Hu HG. unfold extract_min. rewrite Hm, Hf, Hs.
  destruct (p' ++ u :: q') as [|f l1'] eqn:El1; [destruct p'; discriminate|].
  rewrite <- El1.
  destruct (zip_ops z u q' f p' Hp Hu) as [_ [B C]]. rewrite B, C.
  destruct (p' ++ q') as [|x l2'] eqn:El2.
  - eexists. split; [reflexivity|]. simpl. repeat split; auto.
  - rewrite <- El2 in *.
    assert (Hnx : In (hd f q') (p' ++ q')).
    { destruct q' as [|y q'']; simpl.
      - rewrite app_nil_r in *. destruct p' as [|y p'']; [discriminate|]. simpl in El1.
        inversion El1; subst. left. reflexivity.
      - apply in_or_app. right. left. reflexivity. }
    destruct (consolidate_ok (p' ++ q') (hd f q')) as [l3 [H3 [P [Hh [r [Hr [Hid Hmin]]]]]]]; auto.
    { rewrite El2. discriminate. }
    rewrite H3. rewrite El2. rewrite <- El2.
    eexists. split; [reflexivity|]. simpl. repeat split; auto.
    unfold min_ok. simpl. exists r. rewrite Hid. auto.
Qed.

Lemma Forall_rev' {A} (P : A -> Prop) l : Forall P l -> Forall P (rev l).
Proof. intros H. apply Forall_forall. intros x Hx. apply in_rev in Hx. rewrite Forall_forall in H. auto. Qed.

Lemma extract_min_spec h z p u q :
  minp h = Some z -> roots h = p ++ u :: q -> nid u = z ->
  Forall (fun r => nid r <> z) p -> Forall (fun r => nid r <> z) (nkids u) ->
  Forall G (p ++ q ++ nkids u) ->
  exists h', extract_min lt h = XOk u h' /\ Permutation (entsl (roots h')) (entsl (p ++ q ++ nkids u)) /\
             Forall hord (roots h') /\ hn h' = hn h - 1 /\ min_ok h'.
Proof.
  intros Hm Hr Hu Hp Hk HG.
  assert (Hf : find_root z (roots h) = Some u) by (rewrite Hr; apply zip_ops; auto).
  fa. destruct HG as [Gp [Gq Gk]].
  destruct p as [|a0 a'].
  - destruct (extract_core h z u [] (rev (nkids u) ++ q)) as [h' [A [B C]]]; auto.
    { rewrite Hr. simpl. apply splice_cons. }
    { simpl. fa. split; auto. apply Forall_rev'; auto. }
    exists h'. split; auto. split; auto. rewrite B. simpl. ex. rewrite entsl_rev. perm.
  - destruct (extract_core h z u (a0 :: rev (nkids u) ++ a') q) as [h' [A [B C]]]; auto.
    { rewrite Hr. simpl. rewrite splice_cons. rewrite <- app_assoc. reflexivity. }
    { inversion Hp; subst. constructor; auto. fa. split; auto. apply Forall_rev'; auto. }
    { inversion Gp; subst. simpl. constructor; auto. fa. repeat split; auto. apply Forall_rev'; auto. }
    exists h'. split; auto. split; auto. rewrite B. simpl. ex. rewrite entsl_rev. perm.
Qed.

(* ---- locating nodes by id ---- *)
Lemma first_some_map_some {A B} (f : A -> option B) : forall l n,
  first_some (map f l) = Some n -> exists c, In c l /\ f c = Some n.
Proof.
  induction l as [|c l IH]; simpl; intros n H; [discriminate|].
  destruct (f c) eqn:E.
  - inversion H; subst. exists c. auto.
  - apply IH in H. destruct H as [c' [? ?]]. exists c'. auto.
Qed.

Lemma first_some_map_none {A B} (f : A -> option B) : forall l,
  first_some (map f l) = None -> forall c, In c l -> f c = None.
Proof.
  induction l as [|c l IH]; simpl; intros H c' Hc; [tauto|].
  destruct (f c) eqn:E; [discriminate|]. destruct Hc as [<-|Hc]; auto.
Qed.

Lemma find_node_some i : forall t n, find_node i t = Some n -> In (nent n) (ents t) /\ nid n = i.
Proof.
  induction t as [j k m d ks IH] using hnode_ind'. intros n H. simpl in H.
  destruct (Z.eqb j i) eqn:E.
  - inversion H; subst. apply Z.eqb_eq in E. split; [left; reflexivity|auto].
  - apply first_some_map_some in H. destruct H as [c [Hc H]].
    rewrite Forall_forall in IH. destruct (IH c Hc n H) as [A B]. split; auto.
    simpl. right. apply in_flat_map. exists c. auto.
Qed.

Lemma find_node_none i : forall t, find_node i t = None -> Forall (fun e => eid e <> i) (ents t).
Proof.
  induction t as [j k m d ks IH] using hnode_ind'. intros H. simpl in H.
  destruct (Z.eqb j i) eqn:E; [discriminate|]. apply Z.eqb_neq in E. simpl.
  constructor; [exact E|]. apply Forall_flat_map. rewrite Forall_forall in *. intros c Hc.
  apply IH; auto. eapply first_some_map_none in H; eauto.
Qed.

Lemma find_forest_some i l n : find_forest i l = Some n -> In (nent n) (entsl l) /\ nid n = i.
Proof.
  unfold find_forest. intros H. apply first_some_map_some in H. destruct H as [c [Hc H]].
  apply find_node_some in H. destruct H. split; auto. apply in_entsl. exists c. auto.
Qed.

Lemma find_forest_none i l : find_forest i l = None -> Forall (fun e => eid e <> i) (entsl l).
Proof.
  unfold find_forest. intros H. apply Forall_flat_map. apply Forall_forall. intros c Hc.
  apply find_node_none. eapply first_some_map_none in H; eauto.
Qed.

Lemma find_forest_in i l e : In e (entsl l) -> eid e = i -> exists n, find_forest i l = Some n.
Proof.
  intros He Hi. destruct (find_forest i l) eqn:E; [eauto|].
  apply find_forest_none in E. rewrite Forall_forall in E. exfalso. apply (E e He Hi).
Qed.

Lemma nodup_ent (E : list ent) e e' : NoDup (map eid E) -> In e E -> In e' E -> eid e = eid e' -> e = e'.
Proof.
  induction E as [|a E IH]; simpl; intros Hn He He' Hid; [tauto|].
  inversion Hn as [|? ? Hna Hn']; subst.
  destruct He as [->|He], He' as [->|He']; auto.
  - exfalso. apply Hna. rewrite Hid. apply in_map. auto.
  - exfalso. apply Hna. rewrite <- Hid. apply in_map. auto.
Qed.

(* ---- the invariant ---- *)
Record Inv (h : heap) (next : Z) : Prop := {
  inv_nodup : NoDup (map eid (entsl (roots h)));
  inv_hord : Forall hord (roots h);
  inv_n : hn h = Z.of_nat (length (entsl (roots h)));
  inv_min : min_ok h;
  inv_clean : Forall (fun e => edel e = false) (entsl (roots h));
  inv_ids : Forall (fun e => 0 <= eid e < next) (entsl (roots h));
  inv_next : 0 <= next }.

(* the abstract value: the multiset of live (key, item id) *)
Definition abs (h : heap) : list (Z * Z) := map fst (entsl (roots h)).

Lemma root_ent r l : In r l -> In (nent r) (entsl l).
Proof. intros H. apply in_entsl. exists r. split; auto. apply nent_in. Qed.

Lemma clean_G l : Forall hord l -> Forall (fun e => edel e = false) (entsl l) -> Forall G l.
Proof.
  intros Hh Hc. rewrite Forall_forall in *. intros r Hr. split; auto.
  apply (Hc (nent r)). apply root_ent; auto.
Qed.

(* under Inv, looking _min up by id gives (a copy of) the minimal root *)
Lemma min_lookup h next m : Inv h next -> minp h = Some m ->
  exists mn r, find_forest m (roots h) = Some mn /\ In r (roots h) /\ nid r = m /\ nkey mn = nkey r /\
               ndel mn = false /\ ndel r = false /\
               Forall (fun e => lt (ekey e) (nkey r) = false) (entsl (roots h)).
Proof.
  intros I Hm. pose proof (inv_min _ _ I) as Hmin. unfold min_ok in Hmin. rewrite Hm in Hmin.
  destruct Hmin as [r [Hr [Hid Hall]]].
  destruct (find_forest_in m (roots h) (nent r) (root_ent _ _ Hr) Hid) as [n Hn].
  destruct (find_forest_some _ _ _ Hn) as [A B].
  assert (E : nent n = nent r).
  { eapply nodup_ent; [apply (inv_nodup _ _ I)|auto|apply root_ent; auto|]. unfold eid, nent. simpl. congruence. }
  pose proof (inv_clean _ _ I) as Hc. rewrite Forall_forall in Hc. specialize (Hc _ A).
  unfold nent in E. inversion E as [[E1 E2 E3]].
  exists n, r. unfold edel in Hc. simpl in Hc. repeat split; auto. congruence.
Qed.

Lemma Inv_intro h next E : Permutation (entsl (roots h)) E -> NoDup (map eid E) -> Forall hord (roots h) ->
  hn h = Z.of_nat (length E) -> min_ok h -> Forall (fun e => edel e = false) E ->
  Forall (fun e => 0 <= eid e < next) E -> 0 <= next -> Inv h next.
Proof.
  intros P Hn Hh Hl Hm Hc Hi Hnx. constructor; auto.
  - eapply Permutation_NoDup; [|apply Hn]. apply Permutation_map. symmetry. auto.
  - rewrite Hl. f_equal. apply Permutation_length. symmetry. auto.
  - eapply Permutation_Forall; [symmetry; apply P|auto].
  - eapply Permutation_Forall; [symmetry; apply P|auto].
Qed.

Lemma In_ring_add_iff x l y : In y (ring_add x l) <-> y = x \/ In y l.
Proof. destruct l; simpl; intuition. Qed.

Lemma Inv_empty next : 0 <= next -> Inv empty next.
Proof. intros. constructor; simpl; auto; try constructor. Qed.

(* ---- push ---- *)
Lemma push_spec h next k : Inv h next ->
  exists h', push lt next k h = (h', RItem next k, false) /\ Inv h' (next + 1) /\
             Permutation (abs h') ((k, next) :: abs h).
Proof.
  intros I. unfold push.
  set (node := HNode next k false false []).
  assert (P : Permutation (entsl (ring_add node (roots h))) ((k, next, false) :: entsl (roots h))).
  { rewrite entsl_ring_add. reflexivity. }
  assert (Hfresh : ~ In next (map eid (entsl (roots h)))).
  { intros Hin. apply in_map_iff in Hin. destruct Hin as [e [He1 He2]].
    pose proof (inv_ids _ _ I) as Hi. rewrite Forall_forall in Hi. specialize (Hi e He2). lia. }
  assert (Hh : Forall hord (ring_add node (roots h))).
  { apply (@In_ring_add unit); [constructor; constructor|apply (inv_hord _ _ I)]. }
  pose proof (inv_next _ _ I) as Hnx.
  assert (Hids : Forall (fun e => 0 <= eid e < next + 1) ((k, next, false) :: entsl (roots h))).
  { pose proof (inv_ids _ _ I) as Hi. rewrite Forall_forall in Hi.
    constructor; [unfold eid; simpl; lia|].
    apply Forall_forall. intros e He. specialize (Hi e He). lia. }
  assert (Hcl : Forall (fun e => edel e = false) ((k, next, false) :: entsl (roots h))).
  { constructor; [reflexivity|apply (inv_clean _ _ I)]. }
  assert (Hnd : NoDup (map eid ((k, next, false) :: entsl (roots h)))).
  { simpl. constructor; [exact Hfresh|apply (inv_nodup _ _ I)]. }
  assert (Hlen : hn h + 1 = Z.of_nat (length ((k, next, false) :: entsl (roots h)))).
  { rewrite (inv_n _ _ I). cbn [length]. lia. }
  assert (Habs : forall h', roots h' = ring_add node (roots h) -> Permutation (abs h') ((k, next) :: abs h)).
  { intros h' Hr. unfold abs. rewrite Hr. rewrite P. reflexivity. }
  destruct (minp h) as [m|] eqn:Hm.
  - destruct (min_lookup h next m I Hm) as [mn [r [Hf [Hr [Hid [Hk [Hd [Hdr Hall]]]]]]]].
    rewrite Hf. eexists. split; [reflexivity|]. split; [|apply Habs; reflexivity].
    eapply Inv_intro; simpl; eauto; try lia.
    unfold min_ok. simpl. unfold node_lt. simpl. rewrite Hk.
    destruct (lt k (nkey r)) eqn:L.
    + exists node. split; [apply In_ring_add_iff; auto|]. split; [reflexivity|].
      eapply Permutation_Forall; [symmetry; apply P|]. simpl.
      constructor; [apply lt_irrefl|].
      eapply Forall_impl; [|apply Hall]. intros e He. simpl in He.
      eapply lt_negtrans; [apply He|]. apply lt_asym. auto.
    + exists r. split; [apply In_ring_add_iff; auto|]. split; [auto|].
      eapply Permutation_Forall; [symmetry; apply P|]. constructor; auto.
  - eexists. split; [reflexivity|]. split; [|apply Habs; reflexivity].
    eapply Inv_intro; simpl; eauto; try lia.
    unfold min_ok. simpl. exists node. split; [apply In_ring_add_iff; auto|]. split; [reflexivity|].
    pose proof (inv_min _ _ I) as Hmin. unfold min_ok in Hmin. rewrite Hm in Hmin. rewrite Hmin.
    simpl. constructor; [apply lt_irrefl|constructor].
Qed.

(* ---- _extract_min at the level of the invariant (the root u may carry the deleted flag: remove) ---- *)
Lemma roots_ne_id z l (E : list ent) : ~ In z (map eid E) -> (forall r, In r l -> In (nent r) E) ->
  Forall (fun r => nid r <> z) l.
Proof.
  intros Hn Hsub. apply Forall_forall. intros r Hr Heq. apply Hn.
  apply in_map_iff. exists (nent r). split; auto.
Qed.

Lemma extract_inv h next z u p q :
  minp h = Some z -> roots h = p ++ u :: q -> nid u = z ->
  NoDup (map eid (entsl (roots h))) -> Forall hord (roots h) ->
  hn h = Z.of_nat (length (entsl (roots h))) ->
  Forall (fun e => edel e = false) (entsl (p ++ q ++ nkids u)) ->
  Forall (fun e => 0 <= eid e < next) (entsl (roots h)) -> 0 <= next ->
  exists h', extract_min lt h = XOk u h' /\ Inv h' next /\
             Permutation (entsl (roots h)) (nent u :: entsl (roots h')).
Proof.
  intros Hm Hr Hu Hnd Hh Hn Hc Hi Hnx.
  assert (PE : Permutation (entsl (roots h)) (nent u :: entsl (p ++ q ++ nkids u))).
  { rewrite Hr. ex. rewrite (ents_unfold u). perm. }
  assert (Hnd' : NoDup (map eid (nent u :: entsl (p ++ q ++ nkids u)))).
  { eapply Permutation_NoDup; [apply Permutation_map; apply PE|auto]. }
  simpl in Hnd'. inversion Hnd' as [|? ? Hz Hnd'']; subst.
  change (eid (nent u)) with (nid u) in Hz.
  rewrite Hr in Hh. fa. destruct Hh as [Hp [Hhu Hq]]. destruct (hord_inv u Hhu) as [_ Hk].
  destruct (extract_min_spec h (nid u) p u q) as [h' [A [B [C [D E]]]]]; auto.
  - eapply roots_ne_id; [apply Hz|]. intros r Hin. apply root_ent. apply in_or_app. auto.
  - eapply roots_ne_id; [apply Hz|]. intros r Hin. apply root_ent. apply in_or_app. right. apply in_or_app. auto.
  - apply clean_G; auto. fa. auto.
  - exists h'. split; auto. split; [|rewrite PE, B; reflexivity].
    eapply Inv_intro; eauto.
    + rewrite D, Hn. rewrite (Permutation_length PE). cbn [length]. lia.
    + assert (Hi' := Permutation_Forall PE Hi). inversion Hi'; auto.
Qed.

Lemma find_root_in r : forall l, In r l -> exists u, find_root (nid r) l = Some u.
Proof.
  induction l as [|a l IH]; simpl; intros H; [tauto|].
  destruct (Z.eqb (nid a) (nid r)) eqn:E; [eauto|].
  destruct H as [->|H]; auto. rewrite Z.eqb_refl in E. discriminate.
Qed.

Lemma drop_deleted_inv h next f : Inv h next -> drop_deleted lt (S f) h = (h, false).
Proof.
  intros I. simpl. destruct (minp h) as [m|] eqn:Hm; auto.
  destruct (min_lookup h next m I Hm) as [mn [r [Hf [_ [_ [_ [Hd _]]]]]]]. rewrite Hf, Hd. reflexivity.
Qed.

Lemma abs_min h k : Forall (fun e => lt (ekey e) k = false) (entsl (roots h)) ->
  forall y, In y (abs h) -> lt (fst y) k = false.
Proof.
  intros H y Hy. unfold abs in Hy. apply in_map_iff in Hy. destruct Hy as [e [<- He]].
  rewrite Forall_forall in H. apply (H e He).
Qed.

(* ---- peek ---- *)
Lemma peek_spec h next : Inv h next ->
  (roots h = [] /\ peek lt h = (h, RExc AttributeError, false)) \/
  (exists m k, peek lt h = (h, RItem m k, false) /\ In (k, m) (abs h) /\
               forall y, In y (abs h) -> lt (fst y) k = false).
Proof.
  intros I. unfold peek. rewrite (drop_deleted_inv h next _ I).
  destruct (minp h) as [m|] eqn:Hm.
  - right. destruct (min_lookup h next m I Hm) as [mn [r [Hf [Hr [Hid [Hk [Hd [_ Hall]]]]]]]].
    rewrite Hf. exists m, (nkey mn). split; auto. split.
    + unfold abs. apply in_map_iff. exists (nent r). split; [unfold nent; simpl; congruence|].
      apply root_ent; auto.
    + apply abs_min. rewrite Hk. auto.
  - left. pose proof (inv_min _ _ I) as Hmin. unfold min_ok in Hmin. rewrite Hm in Hmin. auto.
Qed.

(* ---- pop ---- *)
Lemma pop_spec h next : Inv h next ->
  (roots h = [] /\ pop lt h = (h, RExc AttributeError, false)) \/
  (exists h' m k, pop lt h = (h', RItem m k, false) /\ Inv h' next /\
                  Permutation (abs h) ((k, m) :: abs h') /\
                  forall y, In y (abs h) -> lt (fst y) k = false).
Proof.
  intros I. unfold pop. rewrite (drop_deleted_inv h next _ I).
  destruct (minp h) as [m|] eqn:Hm.
  - right. destruct (min_lookup h next m I Hm) as [mn [r [Hf [Hr [Hid [Hk [Hd [Hdr Hall]]]]]]]].
    destruct (find_root_in r _ Hr) as [u Hu]. rewrite Hid in Hu.
    destruct (find_root_split _ _ _ Hu) as [p [q [Hroots [Hp Hidu]]]].
    assert (Eu : nent u = nent r).
    { eapply nodup_ent; [apply (inv_nodup _ _ I)| | |].
      - rewrite Hroots. apply root_ent. apply in_or_app. right. left. reflexivity.
      - apply root_ent; auto.
      - unfold eid, nent. simpl. congruence. }
    unfold nent in Eu. inversion Eu as [[Ek Ei Ed]].
    destruct (extract_inv h next m u p q) as [h' [A [B C]]]; auto;
      try apply (inv_nodup _ _ I); try apply (inv_hord _ _ I); try apply (inv_n _ _ I);
      try apply (inv_ids _ _ I); try apply (inv_next _ _ I).
    + pose proof (inv_clean _ _ I) as Hc. rewrite Hroots in Hc. revert Hc. ex. rewrite (ents_unfold u).
      intros Hc. fa. tauto.
    + rewrite A. exists h', (nid u), (nkey u). split; auto. split; auto. split.
      * unfold abs. rewrite C. reflexivity.
      * apply abs_min. rewrite Ek. auto.
  - left. pose proof (inv_min _ _ I) as Hmin. unfold min_ok in Hmin. rewrite Hm in Hmin.
    split; auto. unfold extract_min. rewrite Hm. reflexivity.
Qed.

(* ---- _cut / _cascading_cut ---- *)
Section CutProofs.
Variable x : Z.       (* the node that was modified *)
Variable k' : Z.      (* its key afterwards *)
Variable d' : bool.   (* its deleted flag afterwards *)
Let upd := set_kd k' d'.

(* the recursion over the child ring, as a top-level function *)
Fixpoint cut_kids (t : hnode) (ks : list hnode) : kres :=
  match ks with
  | [] => KNot
  | c :: r =>
      if Z.eqb (nid c) x then
        let c' := upd c in
        if node_lt lt c' t then KCasc r [set_mark false c'] else KDone (c' :: r) []
      else
        match cut_node lt x upd c with
        | CNot => match cut_kids t r with
                  | KNot => KNot
                  | KDone r' cu => KDone (c :: r') cu
                  | KCasc r' cu => KCasc (c :: r') cu end
        | CDone c' cu => KDone (c' :: r) cu
        | CCasc c' cu => if nmark c' then KCasc r (cu ++ [set_mark false c'])
                         else KDone (set_mark true c' :: r) cu
        end
  end.

Lemma cut_node_eq i k m d ks :
  cut_node lt x upd (HNode i k m d ks) =
  match cut_kids (HNode i k m d ks) ks with
  | KNot => CNot
  | KDone ks' cu => CDone (HNode i k m d ks') cu
  | KCasc ks' cu => CCasc (HNode i k m d ks') cu end.
Proof.
  simpl.
  match goal with |- match ?F ks with _ => _ end = _ =>
    assert (E : forall l, F l = cut_kids (HNode i k m d ks) l) end.
  { induction l as [|c r IH]; [reflexivity|]. simpl. rewrite IH. reflexivity. }
  rewrite E. reflexivity.
Qed.

(* x' < the node with entry e, as HeapNode.__lt__ computes it *)
Definition nlt (e : ent) : bool := (d' && negb (edel e)) || lt k' (ekey e).

Lemma node_lt_nlt c t : node_lt lt (upd c) t = nlt (nent t).
Proof. destruct c, t. reflexivity. Qed.

Definition cut_post (casc : bool) (before after : list ent) (cu : list hnode) (extra : list ent) : Prop :=
  exists kx dx E,
    Permutation before ((kx, x, dx) :: E) /\
    Permutation (after ++ entsl cu) ((k', x, d') :: E) /\
    Forall hord cu /\
    ((casc = false /\ cu = [] /\ exists e, In e (extra ++ E) /\ nlt e = false) \/
     (exists x' rest, cu = x' :: rest /\ nent x' = (k', x, d'))).

Definition node_spec (t : hnode) : Prop :=
  match cut_node lt x upd t with
  | CNot => Forall (fun e => eid e <> x) (entsl (nkids t))
  | CDone t' cu => cut_post false (ents t) (ents t') cu [] /\ hord t' /\ nent t' = nent t
  | CCasc t' cu => cut_post true (ents t) (ents t') cu [] /\ hord t' /\ nent t' = nent t
  end.

Definition kids_post (casc : bool) (t : hnode) (ks ks' cu : list hnode) : Prop :=
  cut_post casc (entsl ks) (entsl ks') cu [nent t] /\
  Forall (fun c => lt (nkey c) (nkey t) = false) ks' /\ Forall hord ks'.

Definition kids_spec (t : hnode) (ks : list hnode) : Prop :=
  match cut_kids t ks with
  | KNot => Forall (fun e => eid e <> x) (entsl ks)
  | KDone ks' cu => kids_post false t ks ks' cu
  | KCasc ks' cu => kids_post true t ks ks' cu
  end.

Lemma cut_post_weaken before after cu extra :
  cut_post true before after cu extra -> cut_post false before after cu extra.
Proof.
  intros [kx [dx [E [P1 [P2 [Hh [[C _]|R]]]]]]]; [discriminate|].
  exists kx, dx, E. auto.
Qed.

Lemma cut_post_frame casc before after cu extra F before' after' extra' :
  cut_post casc before after cu extra ->
  Permutation before' (before ++ F) -> Permutation after' (after ++ F) ->
  (forall e, In e extra -> In e extra' \/ In e F) ->
  cut_post casc before' after' cu extra'.
Proof.
  intros [kx [dx [E [P1 [P2 [Hh D]]]]]] Hb Ha Hex.
  exists kx, dx, (E ++ F). split; [rewrite Hb, P1; reflexivity|]. split.
  - rewrite Ha. transitivity ((after ++ entsl cu) ++ F); [perm|rewrite P2; reflexivity].
  - split; auto. destruct D as [[C [Hc [e [He Hn]]]]|R]; [left|right; auto].
    split; auto. split; auto. exists e. split; auto.
    apply in_app_or in He. destruct He as [He|He].
    + destruct (Hex e He); apply in_or_app; auto. right. apply in_or_app. auto.
    + apply in_or_app. right. apply in_or_app. auto.
Qed.

(* the child c' that lost a child was marked: it is cut as well and the cascade goes on *)
Lemma cut_post_casc before c' cu F before' extra' :
  cut_post true before (ents c') cu [] -> hord c' ->
  Permutation before' (before ++ F) ->
  cut_post true before' F (cu ++ [set_mark false c']) extra'.
Proof.
  intros [kx [dx [E [P1 [P2 [Hh D]]]]]] Hc Hb.
  exists kx, dx, (E ++ F). split; [rewrite Hb, P1; reflexivity|]. split.
  - ex. rewrite ents_set_mark. simpl. rewrite app_nil_r.
    transitivity ((ents c' ++ entsl cu) ++ F); [perm|rewrite P2; reflexivity].
  - split; [apply Forall_app; split; auto; constructor; auto; apply hord_set_mark; auto|].
    right. destruct D as [[C _]|[x' [rest [-> Hx']]]]; [discriminate|].
    exists x', (rest ++ [set_mark false c']). auto.
Qed.

(* every entry with id x has a key that is not below the new key (the key only decreases) *)
Definition hx (e : ent) : Prop := eid e = x -> lt (ekey e) k' = false.

Lemma ents_upd c : ents (upd c) = (k', nid c, d') :: entsl (nkids c).
Proof. destruct c; reflexivity. Qed.

Lemma hord_upd c : hord c -> hx (nent c) -> nid c = x -> hord (upd c).
Proof.
  intros Hc Hx Hi. destruct c as [i kc m dc kks]. destruct (hord_inv _ Hc) as [A B]. simpl in *.
  unfold upd, set_kd. simpl. constructor; auto.
  eapply Forall_impl; [|apply A]. intros kid Hk. simpl in Hk.
  eapply lt_negtrans; [apply Hk|]. apply (Hx Hi).
Qed.

Lemma kids_ok t : forall ks,
  Forall (fun c => hord c -> Forall hx (ents c) -> node_spec c) ks ->
  Forall (fun c => lt (nkey c) (nkey t) = false) ks -> Forall hord ks -> Forall hx (entsl ks) ->
  kids_spec t ks.
Proof.
  induction ks as [|c r IHr]; intros HI Hk Hh Hx; unfold kids_spec; cbn [cut_kids].
  - constructor.
  - inversion HI as [|? ? HIc HIr]; subst. inversion Hk as [|? ? Hkc Hkr]; subst.
    inversion Hh as [|? ? Hhc Hhr]; subst. rewrite entsl_cons in Hx. apply Forall_app in Hx.
    destruct Hx as [Hxc Hxr]. specialize (IHr HIr Hkr Hhr Hxr).
    destruct (Z.eqb (nid c) x) eqn:Ec.
    + apply Z.eqb_eq in Ec. cbv zeta. rewrite node_lt_nlt.
      assert (Hxn : hx (nent c)) by (rewrite ents_unfold in Hxc; inversion Hxc; auto).
      assert (Hu : hord (upd c)) by (apply hord_upd; auto).
      assert (P1 : Permutation (entsl (c :: r)) ((nkey c, x, ndel c) :: entsl (nkids c) ++ entsl r)).
      { ex. rewrite (ents_unfold c). unfold nent. rewrite Ec. reflexivity. }
      destruct (nlt (nent t)) eqn:N.
      * split; [|split; auto].
        exists (nkey c), (ndel c), (entsl (nkids c) ++ entsl r). split; auto. split.
        { ex. rewrite ents_set_mark, ents_upd, Ec. simpl. perm. }
        split; [constructor; auto; apply hord_set_mark; auto|].
        right. exists (set_mark false (upd c)), []. split; auto.
        destruct c; simpl in *. rewrite Ec. reflexivity.
      * split; [|split].
        { exists (nkey c), (ndel c), (entsl (nkids c) ++ entsl r). split; auto. split.
          { ex. rewrite ents_upd, Ec. simpl. perm. }
          split; [constructor|]. left. split; auto. split; auto.
          exists (nent t). split; [left; reflexivity|auto]. }
        { constructor; auto. unfold nlt in N. apply orb_false_iff in N. destruct N as [_ N].
          destruct c; simpl. exact N. }
        { constructor; auto. }
    + specialize (HIc Hhc Hxc). unfold node_spec in HIc.
      destruct (cut_node lt x upd c) as [|c' cu|c' cu].
      * (* not below c *)
        assert (Hnc : Forall (fun e => eid e <> x) (ents c)).
        { rewrite ents_unfold. constructor; auto. apply Z.eqb_neq in Ec. exact Ec. }
        unfold kids_spec in IHr. destruct (cut_kids t r) as [|r' cu|r' cu].
        { rewrite entsl_cons. apply Forall_app. auto. }
        { destruct IHr as [A [B C]]. split; [|split; auto].
          eapply cut_post_frame; [apply A| | |]; [ex; apply Permutation_app_comm|ex; apply Permutation_app_comm|auto]. }
        { destruct IHr as [A [B C]]. split; [|split; auto].
          eapply cut_post_frame; [apply A| | |]; [ex; apply Permutation_app_comm|ex; apply Permutation_app_comm|auto]. }
      * destruct HIc as [A [B C]]. inversion C as [[Ck Ci Cd]]. split; [|split].
        { eapply cut_post_frame; [apply A| | |]; [ex; reflexivity|ex; reflexivity|intros ? []]. }
        { constructor; auto. rewrite Ck. auto. }
        { constructor; auto. }
      * destruct HIc as [A [B C]]. inversion C as [[Ck Ci Cd]]. destruct (nmark c').
        { split; [|split; auto]. eapply cut_post_casc; [apply A|auto|ex; reflexivity]. }
        { split; [|split].
          - apply cut_post_weaken.
            eapply cut_post_frame; [apply A| | |]; [ex; reflexivity|ex; rewrite ents_set_mark; reflexivity|intros ? []].
          - constructor; auto. rewrite nkey_set_mark, Ck. auto.
          - constructor; auto. apply hord_set_mark; auto. }
Qed.

Lemma node_ok : forall t, hord t -> Forall hx (ents t) -> node_spec t.
Proof.
  induction t as [i k m d ks IH] using hnode_ind'. intros Hh Hx.
  destruct (hord_inv _ Hh) as [Hk Hhk]. simpl in Hk, Hhk.
  assert (Hxk : Forall hx (entsl ks)) by (simpl in Hx; inversion Hx; auto).
  pose proof (kids_ok (HNode i k m d ks) ks IH Hk Hhk Hxk) as K.
  unfold node_spec. rewrite cut_node_eq. unfold kids_spec in K.
  destruct (cut_kids (HNode i k m d ks) ks) as [|ks' cu|ks' cu].
  - exact K.
  - destruct K as [A [B C]]. split; [|split; [constructor; auto|reflexivity]].
    eapply cut_post_frame with (F := [(k, i, d)]); [apply A| | |].
    + simpl. change (flat_map ents ks) with (entsl ks). apply Permutation_cons_append.
    + simpl. change (flat_map ents ks') with (entsl ks'). apply Permutation_cons_append.
    + intros e [<-|[]]. right. left. reflexivity.
  - destruct K as [A [B C]]. split; [|split; [constructor; auto|reflexivity]].
    eapply cut_post_frame with (F := [(k, i, d)]); [apply A| | |].
    + simpl. change (flat_map ents ks) with (entsl ks). apply Permutation_cons_append.
    + simpl. change (flat_map ents ks') with (entsl ks'). apply Permutation_cons_append.
    + intros e [<-|[]]. right. left. reflexivity.
Qed.

Definition roots_post (rs rs' cu : list hnode) : Prop :=
  exists kx dx E,
    Permutation (entsl rs) ((kx, x, dx) :: E) /\
    Permutation (entsl rs' ++ entsl cu) ((k', x, d') :: E) /\
    Forall hord rs' /\ Forall hord cu /\ map nid rs' = map nid rs /\
    ((exists x', In x' (rs' ++ cu) /\ nent x' = (k', x, d')) \/ (exists e, In e E /\ nlt e = false)).

Lemma cut_post_roots casc r r' cu rest :
  cut_post casc (ents r) (ents r') cu [] -> hord r' -> nent r' = nent r -> Forall hord rest ->
  roots_post (r :: rest) (r' :: rest) cu.
Proof.
  intros [kx [dx [E [P1 [P2 [Hh D]]]]]] Hr' Hn Hrest. inversion Hn as [[Hk Hi Hd]].
  exists kx, dx, (E ++ entsl rest). split; [ex; rewrite P1; reflexivity|]. split.
  - ex. transitivity ((ents r' ++ entsl cu) ++ entsl rest); [perm|rewrite P2; reflexivity].
  - split; [constructor; auto|]. split; auto. split; [simpl; congruence|].
    destruct D as [[_ [_ [e [He Hne]]]]|[x' [rest' [-> Hx']]]].
    + right. exists e. split; auto. apply in_or_app. auto.
    + left. exists x'. split; auto. apply in_or_app. right. left. reflexivity.
Qed.

Lemma cut_roots_ok : forall rs, Forall hord rs -> Forall hx (entsl rs) ->
  Exists (fun e => eid e = x) (entsl rs) ->
  exists rs' cu, cut_roots lt x upd rs = Some (rs', cu) /\ roots_post rs rs' cu.
Proof.
  induction rs as [|r rest IH]; intros Hh Hx Hex; [inversion Hex|].
  inversion Hh as [|? ? Hhr Hhrest]; subst. rewrite entsl_cons in Hx, Hex.
  apply Forall_app in Hx. destruct Hx as [Hxr Hxrest]. cbn [cut_roots].
  destruct (Z.eqb (nid r) x) eqn:Er.
  - apply Z.eqb_eq in Er. exists (upd r :: rest), []. split; auto.
    assert (Hxn : hx (nent r)) by (rewrite ents_unfold in Hxr; inversion Hxr; auto).
    exists (nkey r), (ndel r), (entsl (nkids r) ++ entsl rest).
    split; [ex; rewrite (ents_unfold r); unfold nent; rewrite Er; reflexivity|].
    split; [ex; rewrite ents_upd, Er; simpl; perm|].
    split; [constructor; auto; apply hord_upd; auto|]. split; [constructor|].
    split; [destruct r; reflexivity|].
    left. exists (upd r). split; [left; reflexivity|]. destruct r; simpl in *. rewrite Er. reflexivity.
  - pose proof (node_ok r Hhr Hxr) as N. unfold node_spec in N.
    destruct (cut_node lt x upd r) as [|r' cu|r' cu].
    + assert (Hnr : Forall (fun e => eid e <> x) (ents r)).
      { rewrite ents_unfold. constructor; auto. apply Z.eqb_neq in Er. exact Er. }
      apply Exists_app in Hex. destruct Hex as [Hex|Hex].
      { exfalso. apply Exists_exists in Hex. destruct Hex as [e [He1 He2]].
        rewrite Forall_forall in Hnr. apply (Hnr e He1 He2). }
      destruct (IH Hhrest Hxrest Hex) as [rest' [cu [Hc [kx [dx [E [P1 [P2 [A [B [C D]]]]]]]]]]].
      rewrite Hc. exists (r :: rest'), cu. split; auto.
      exists kx, dx, (ents r ++ E). split; [ex; rewrite P1; perm|]. split.
      { ex. transitivity (ents r ++ (entsl rest' ++ entsl cu)); [perm|rewrite P2; perm]. }
      split; [constructor; auto|]. split; auto. split; [simpl; congruence|].
      destruct D as [[x' [Hin Hx']]|[e [He Hn]]].
      * left. exists x'. split; auto. right. auto.
      * right. exists e. split; auto. apply in_or_app. auto.
    + destruct N as [A [B C]]. exists (r' :: rest), cu. split; auto. eapply cut_post_roots; eauto.
    + destruct N as [A [B C]]. exists (r' :: rest), cu. split; auto. eapply cut_post_roots; eauto.
Qed.

End CutProofs.

(* ---- splicing cut nodes into the root ring ---- *)
Lemma splice_perm : forall ks rs, Permutation (entsl (splice rs ks)) (entsl rs ++ entsl ks).
Proof.
  unfold splice. induction ks as [|c ks IH]; intros rs; cbn [fold_left].
  - change (entsl []) with (@nil ent). rewrite app_nil_r. reflexivity.
  - rewrite IH. rewrite entsl_ring_add. rewrite (entsl_cons c ks). perm.
Qed.

Lemma In_splice y : forall ks rs, In y (splice rs ks) <-> In y rs \/ In y ks.
Proof.
  unfold splice. induction ks as [|c ks IH]; intros rs; cbn [fold_left].
  - simpl. tauto.
  - rewrite IH, In_ring_add_iff. simpl. intuition.
Qed.

Lemma Forall_splice (P : hnode -> Prop) rs ks : Forall P rs -> Forall P ks -> Forall P (splice rs ks).
Proof.
  intros A B. rewrite Forall_forall in *. intros y Hy. apply In_splice in Hy. destruct Hy; auto.
Qed.

Lemma same_ids_root rs rs' r : map nid rs' = map nid rs -> In r rs -> exists r', In r' rs' /\ nid r' = nid r.
Proof.
  intros E Hr. apply (in_map nid) in Hr. rewrite <- E in Hr. apply in_map_iff in Hr.
  destruct Hr as [r' [A B]]. eauto.
Qed.

Lemma abs_perm h E : Permutation (entsl (roots h)) E -> Permutation (abs h) (map fst E).
Proof. intros P. unfold abs. apply Permutation_map. auto. Qed.

(* ---- decrease_key ---- *)
Lemma node_lt_upd k xn mn : ndel mn = false -> node_lt lt (set_kd k false xn) mn = lt k (nkey mn).
Proof. intros H. destruct xn, mn. unfold node_lt. simpl in *. reflexivity. Qed.

Lemma nent_eq t k i d : nent t = (k, i, d) -> nkey t = k /\ nid t = i /\ ndel t = d.
Proof. unfold nent. intros H. inversion H. auto. Qed.
Lemma nent_eq2 a b : nent a = nent b -> nkey a = nkey b /\ nid a = nid b /\ ndel a = ndel b.
Proof. unfold nent. intros H. inversion H. auto. Qed.

Lemma decrease_key_spec h next x k : Inv h next ->
  exists h' r, decrease_key lt x k h = (h', r, false) /\ Inv h' next /\
    ((~ In x (map snd (abs h)) /\ h' = h /\ r = RNone) \/
     (exists kx, In (kx, x) (abs h) /\ lt kx k = true /\ h' = h /\ r = RExc ValueError) \/
     (exists kx E, Permutation (abs h) ((kx, x) :: E) /\ lt kx k = false /\ r = RNone /\
                   Permutation (abs h') ((k, x) :: E))).
Proof.
  intros I. unfold decrease_key. destruct (find_forest x (roots h)) as [xn|] eqn:Hf.
  2:{ exists h, RNone. split; auto. split; auto. left. split; auto.
      apply find_forest_none in Hf. rewrite Forall_forall in Hf. intros Hin.
      unfold abs in Hin. rewrite map_map in Hin. apply in_map_iff in Hin. destruct Hin as [e [He1 He2]].
      apply (Hf e He2). exact He1. }
  destruct (find_forest_some _ _ _ Hf) as [Hxin Hxid].
  destruct (lt (nkey xn) k) eqn:L.
  { exists h, (RExc ValueError). split; auto. split; auto. right. left. exists (nkey xn).
    split; [|auto]. unfold abs. apply in_map_iff. exists (nent xn). split; auto.
    unfold nent. simpl. rewrite Hxid. reflexivity. }
  pose proof (inv_nodup _ _ I) as Hnd. pose proof (inv_clean _ _ I) as Hcl.
  pose proof (inv_ids _ _ I) as Hids. pose proof (inv_hord _ _ I) as Hho.
  assert (Hdx : ndel xn = false) by (rewrite Forall_forall in Hcl; apply (Hcl _ Hxin)).
  rewrite Hdx.
  destruct (cut_roots_ok x k false (roots h)) as [rs' [cu [Hc RP]]]; auto.
  { apply Forall_forall. intros e He Hex.
    assert (e = nent xn) by (eapply nodup_ent; eauto; unfold eid, nent in *; simpl in *; congruence).
    subst e. exact L. }
  { apply Exists_exists. exists (nent xn). split; auto. }
  rewrite Hc.
  destruct (minp h) as [m|] eqn:Hm.
  2:{ pose proof (inv_min _ _ I) as Hmin. unfold min_ok in Hmin. rewrite Hm in Hmin. rewrite Hmin in Hxin.
      destruct Hxin. }
  destruct RP as [kx [dx [E [P1 [P2 [Hh' [Hcu [Hsame D]]]]]]]].
  assert (PE2 : Permutation (entsl (splice rs' cu)) ((k, x, false) :: E)) by (rewrite splice_perm; auto).
  assert (Hnd1 : NoDup (map eid ((kx, x, dx) :: E))).
  { eapply Permutation_NoDup; [apply Permutation_map; apply P1|auto]. }
  assert (Hnd2 : NoDup (map eid ((k, x, false) :: E))) by exact Hnd1.
  assert (Hnd3 : NoDup (map eid (entsl (splice rs' cu)))).
  { eapply Permutation_NoDup; [apply Permutation_map; symmetry; apply PE2|auto]. }
  assert (Exn : (kx, x, dx) = nent xn).
  { eapply nodup_ent; [apply Hnd| |auto|unfold eid, nent; simpl; congruence].
    eapply Permutation_in; [symmetry; apply P1|left; reflexivity]. }
  assert (Ekx : kx = nkey xn) by (unfold nent in Exn; congruence).
  assert (Hcl1 : Forall (fun e => edel e = false) ((kx, x, dx) :: E)) by (eapply Permutation_Forall; eauto).
  assert (Hcl2 : Forall (fun e => edel e = false) ((k, x, false) :: E)).
  { inversion Hcl1; subst. constructor; auto. }
  assert (Hids1 : Forall (fun e => 0 <= eid e < next) ((kx, x, dx) :: E)) by (eapply Permutation_Forall; eauto).
  assert (Hids2 : Forall (fun e => 0 <= eid e < next) ((k, x, false) :: E)).
  { inversion Hids1; subst. constructor; auto. }
  pose proof (inv_min _ _ I) as Hmin. unfold min_ok in Hmin. rewrite Hm in Hmin.
  destruct Hmin as [r [Hr [Hrid Hall]]].
  assert (Hall1 : Forall (fun e => lt (ekey e) (nkey r) = false) ((kx, x, dx) :: E)) by (eapply Permutation_Forall; eauto).
  assert (HallE : Forall (fun e => lt (ekey e) (nkey r) = false) E) by (inversion Hall1; auto).
  destruct (same_ids_root _ _ r Hsame Hr) as [r' [Hr' Hr'id]].
  assert (Hr'2 : In r' (splice rs' cu)) by (apply In_splice; auto).
  assert (Hr'e : In (nent r') (entsl (splice rs' cu))) by (apply root_ent; auto).
  destruct (find_forest_in m (splice rs' cu) (nent r') Hr'e) as [mn Hmn].
  { unfold eid, nent. simpl. congruence. }
  rewrite Hmn. destruct (find_forest_some _ _ _ Hmn) as [Hmnin Hmnid].
  assert (Emn : nent mn = nent r').
  { eapply nodup_ent; [apply Hnd3|auto|auto|unfold eid, nent; simpl; congruence]. }
  destruct (nent_eq2 _ _ Emn) as [Emk [Emi Emd]].
  assert (Hr'n : In (nent r') ((k, x, false) :: E)) by (eapply Permutation_in; eauto).
  assert (Hdr' : ndel r' = false).
  { rewrite Forall_forall in Hcl2. apply (Hcl2 _ Hr'n). }
  rewrite node_lt_upd by congruence. rewrite Emk.
  eexists. exists RNone. split; [reflexivity|]. split.
  2:{ right. right. exists kx, (map fst E). split; [apply (abs_perm h _ P1)|]. split; [congruence|].
      split; auto. apply (abs_perm {| roots := splice rs' cu; minp := _; hn := hn h |} _ PE2). }
  eapply Inv_intro; simpl; eauto.
  - apply Forall_splice; auto.
  - rewrite (inv_n _ _ I). rewrite (Permutation_length P1). reflexivity.
  - unfold min_ok. simpl. destruct (Z.eq_dec m x) as [Emx|Nmx].
    + (* the minimum itself was decreased: it is a root *)
      assert (Er' : nent r' = (k, x, false)).
      { eapply nodup_ent; [apply Hnd2|auto|left; reflexivity|unfold eid, nent; simpl; congruence]. }
      destruct (nent_eq _ _ _ _ Er') as [Ek' [Ei' Ed']]. rewrite Ek', lt_irrefl.
      exists r'. split; auto. split; [congruence|].
      eapply Permutation_Forall; [symmetry; apply PE2|]. constructor; [rewrite Ek'; apply lt_irrefl|].
      assert (Er : nent r = (kx, x, dx)).
      { eapply nodup_ent; [apply Hnd|apply root_ent; auto| |unfold eid, nent; simpl; congruence].
        eapply Permutation_in; [symmetry; apply P1|left; reflexivity]. }
      destruct (nent_eq _ _ _ _ Er) as [Erk [Eri Erd]].
      eapply Forall_impl; [|apply HallE]. intros e He. simpl in He.
      eapply lt_negtrans; [apply He|]. congruence.
    + assert (Hr'E : In (nent r') E).
      { destruct Hr'n as [Hx|]; auto. exfalso. apply Nmx. symmetry in Hx. apply nent_eq in Hx. destruct Hx as [_ [Hx _]]. congruence. }
      assert (Er : nent r' = nent r).
      { eapply nodup_ent; [apply Hnd| |apply root_ent; auto|unfold eid, nent; simpl; congruence].
        eapply Permutation_in; [symmetry; apply P1|right; auto]. }
      destruct (nent_eq2 _ _ Er) as [Erk [Eri Erd]]. rewrite Erk.
      destruct (lt k (nkey r)) eqn:L2.
      * destruct D as [[x' [Hx' Ex']]|[e [He Hn]]].
        -- destruct (nent_eq _ _ _ _ Ex') as [Exk [Exi Exd]]. exists x'. split; [apply In_splice; apply in_app_or in Hx'; auto|].
           split; auto.
           eapply Permutation_Forall; [symmetry; apply PE2|]. constructor; [rewrite Exk; apply lt_irrefl|].
           eapply Forall_impl; [|apply HallE]. intros e He. simpl in He.
           eapply lt_negtrans; [apply He|]. rewrite Exk. apply lt_asym. auto.
        -- exfalso. unfold nlt in Hn. simpl in Hn.
           rewrite Forall_forall in HallE. pose proof (lt_negtrans _ _ _ Hn (HallE e He)). congruence.
      * exists r'. split; auto. split; [congruence|]. rewrite Erk.
        eapply Permutation_Forall; [symmetry; apply PE2|]. constructor; auto.
  - apply (inv_next _ _ I).
Qed.

(* ---- remove ---- *)
Lemma remove_spec h next x : Inv h next ->
  exists h', remove lt x h = (h', RNone, false) /\ Inv h' next /\
    ((~ In x (map snd (abs h)) /\ h' = h) \/
     (exists kx, Permutation (abs h) ((kx, x) :: abs h'))).
Proof.
  intros I. unfold remove. destruct (find_forest x (roots h)) as [xn|] eqn:Hf.
  2:{ exists h. split; auto. split; auto. left. split; auto.
      apply find_forest_none in Hf. rewrite Forall_forall in Hf. intros Hin.
      unfold abs in Hin. rewrite map_map in Hin. apply in_map_iff in Hin. destruct Hin as [e [He1 He2]].
      apply (Hf e He2). exact He1. }
  destruct (find_forest_some _ _ _ Hf) as [Hxin Hxid].
  pose proof (inv_nodup _ _ I) as Hnd. pose proof (inv_clean _ _ I) as Hcl.
  pose proof (inv_ids _ _ I) as Hids. pose proof (inv_hord _ _ I) as Hho.
  destruct (cut_roots_ok x (nkey xn) true (roots h)) as [rs' [cu [Hc RP]]]; auto.
  { apply Forall_forall. intros e He Hex.
    assert (e = nent xn) by (eapply nodup_ent; eauto; unfold eid, nent in *; simpl in *; congruence).
    subst e. apply lt_irrefl. }
  { apply Exists_exists. exists (nent xn). split; auto. }
  rewrite Hc.
  destruct RP as [kx [dx [E [P1 [P2 [Hh' [Hcu [Hsame D]]]]]]]].
  assert (PE2 : Permutation (entsl (splice rs' cu)) ((nkey xn, x, true) :: E)) by (rewrite splice_perm; auto).
  assert (Hnd1 : NoDup (map eid ((kx, x, dx) :: E))).
  { eapply Permutation_NoDup; [apply Permutation_map; apply P1|auto]. }
  assert (Hnd2 : NoDup (map eid ((nkey xn, x, true) :: E))) by exact Hnd1.
  assert (Hnd3 : NoDup (map eid (entsl (splice rs' cu)))).
  { eapply Permutation_NoDup; [apply Permutation_map; symmetry; apply PE2|auto]. }
  assert (Hcl1 : Forall (fun e => edel e = false) ((kx, x, dx) :: E)) by (eapply Permutation_Forall; eauto).
  assert (HclE : Forall (fun e => edel e = false) E) by (inversion Hcl1; auto).
  assert (Hids1 : Forall (fun e => 0 <= eid e < next) ((kx, x, dx) :: E)) by (eapply Permutation_Forall; eauto).
  assert (Hids2 : Forall (fun e => 0 <= eid e < next) ((nkey xn, x, true) :: E)).
  { inversion Hids1; subst. constructor; auto. }
  destruct D as [[x' [Hx' Ex']]|[e [He Hn]]].
  2:{ exfalso. unfold nlt in Hn. rewrite Forall_forall in HclE. rewrite (HclE e He) in Hn. discriminate. }
  destruct (nent_eq _ _ _ _ Ex') as [Exk [Exi Exd]].
  assert (Hx'2 : In x' (splice rs' cu)) by (apply In_splice; apply in_app_or in Hx'; auto).
  destruct (in_split _ _ Hx'2) as [p [q Hpq]].
  assert (PE3 : Permutation (entsl (splice rs' cu)) (nent x' :: entsl (p ++ q ++ nkids x'))).
  { rewrite Hpq. ex. rewrite (ents_unfold x'). perm. }
  assert (PE4 : Permutation (entsl (p ++ q ++ nkids x')) E).
  { apply (Permutation_cons_inv (a := nent x')). rewrite <- PE3, PE2, Ex'. reflexivity. }
  destruct (extract_inv {| roots := splice rs' cu; minp := Some x; hn := hn h |} next x x' p q)
    as [h' [A [B C]]]; simpl; auto.
  - apply Forall_splice; auto.
  - rewrite (inv_n _ _ I). rewrite (Permutation_length P1), (Permutation_length PE2). reflexivity.
  - eapply Permutation_Forall; [symmetry; apply PE4|auto].
  - eapply Permutation_Forall; [symmetry; apply PE2|auto].
  - apply (inv_next _ _ I).
  - rewrite A. exists h'. split; auto. split; auto. right. exists kx.
    simpl in C. rewrite (abs_perm h _ P1). simpl. constructor. unfold abs.
    apply Permutation_map. apply (Permutation_cons_inv (a := nent x')). rewrite <- C, PE2, Ex'. reflexivity.
Qed.

(* ---- histories ---- *)
(* the model never reports an internal error (a missing node, an exhausted fuel) and keeps the invariant *)
Definition SInv (s : mstate) : Prop := serr s = false /\ Inv (sh s) (snext s).

Definition minimal (k : Z) (A : list (Z * Z)) : Prop := forall y, In y A -> lt (fst y) k = false.

(* what one operation does to the multiset A of live (key, item id) pairs, and what it returns *)
Definition op_spec (o : op) (next : Z) (A : list (Z * Z)) (r : ret) (A' : list (Z * Z)) : Prop :=
  match o with
  | Push k => r = RItem next k /\ Permutation A' ((k, next) :: A)
  | Peek => (A = [] /\ r = RExc AttributeError /\ A' = A) \/
            (exists m k, r = RItem m k /\ In (k, m) A /\ minimal k A /\ A' = A)
  | Pop => (A = [] /\ r = RExc AttributeError /\ A' = A) \/
           (exists m k, r = RItem m k /\ minimal k A /\ Permutation A ((k, m) :: A'))
  | DecreaseKey x k =>
      (~ In x (map snd A) /\ A' = A /\ r = RNone) \/
      (exists kx, In (kx, x) A /\ lt kx k = true /\ A' = A /\ r = RExc ValueError) \/
      (exists kx E, Permutation A ((kx, x) :: E) /\ lt kx k = false /\ r = RNone /\ Permutation A' ((k, x) :: E))
  | Remove x =>
      r = RNone /\ ((~ In x (map snd A) /\ A' = A) \/ (exists kx, Permutation A ((kx, x) :: A')))
  end.

Definition next_after_op (o : op) (next : Z) : Z := match o with Push _ => next + 1 | _ => next end.

Lemma Inv_size h next : Inv h next -> hn h = Z.of_nat (length (abs h)).
Proof. intros I. unfold abs. rewrite map_length. apply (inv_n _ _ I). Qed.

Lemma Inv_ids_unique h next : Inv h next -> NoDup (map snd (abs h)).
Proof. intros I. unfold abs. rewrite map_map. apply (inv_nodup _ _ I). Qed.

Lemma Inv_ids_range h next : Inv h next -> forall y, In y (abs h) -> 0 <= snd y < next.
Proof.
  intros I y Hy. unfold abs in Hy. apply in_map_iff in Hy. destruct Hy as [e [<- He]].
  pose proof (inv_ids _ _ I) as Hi. rewrite Forall_forall in Hi. apply (Hi e He).
Qed.

Lemma step_spec s o : SInv s ->
  let s' := step lt s o in
  SInv s' /\ snext s' = next_after_op o (snext s) /\
  op_spec o (snext s) (abs (sh s)) (step_ret lt s o) (abs (sh s')).
Proof.
  intros [He I]. unfold step, step_ret, apply_op.
  assert (F : forall h' nx (P : Prop), Inv h' nx -> nx = next_after_op o (snext s) -> P ->
              SInv {| sh := h'; snext := nx; serr := serr s || false |} /\
              snext {| sh := h'; snext := nx; serr := serr s || false |} = next_after_op o (snext s) /\ P).
  { intros h' nx P Hi Hn HP. rewrite He. split; [split; [reflexivity|exact Hi]|split; [exact Hn|exact HP]]. }
  destruct o as [k| | |x k|x]; cbn [next_after_op op_spec] in *.
  - destruct (push_spec (sh s) (snext s) k I) as [h' [A [B C]]]. rewrite A. apply F; auto.
  - destruct (pop_spec (sh s) (snext s) I) as [[A B]|[h' [m [k [A [B [C D]]]]]]]; rewrite ?B, ?A; apply F; auto.
    + left. unfold abs. cbn [sh]. rewrite A. auto.
    + right. exists m, k. auto.
  - destruct (peek_spec (sh s) (snext s) I) as [[A B]|[m [k [A [B C]]]]]; rewrite ?B, ?A; apply F; auto.
    + left. unfold abs. cbn [sh]. rewrite A. auto.
    + right. exists m, k. auto.
  - destruct (decrease_key_spec (sh s) (snext s) x k I) as [h' [r [A [B C]]]]. rewrite A. apply F; auto.
    destruct C as [[C1 [-> ->]]|[[kx [C1 [C2 [-> ->]]]]|[kx [E [C1 [C2 [-> C3]]]]]]]; eauto 10.
  - destruct (remove_spec (sh s) (snext s) x I) as [h' [A [B C]]]. rewrite A. apply F; auto.
    split; auto. destruct C as [[C1 ->]|[kx C1]]; eauto.
Qed.

Lemma SInv_init : SInv init.
Proof. split; [reflexivity|]. apply Inv_empty. simpl. lia. Qed.

Lemma fold_inv ops : forall s, SInv s -> SInv (fold_left (step lt) ops s).
Proof.
  induction ops as [|o ops IH]; intros s Hs; simpl; auto. apply IH. apply (step_spec s o Hs).
Qed.

(* for every history: no internal error, the invariant, unique item ids, size = number of live items *)
Theorem run_inv ops : let s := run lt ops in
  serr s = false /\ Inv (sh s) (snext s) /\ NoDup (map snd (abs (sh s))) /\
  hn (sh s) = Z.of_nat (length (abs (sh s))).
Proof.
  destruct (fold_inv ops init SInv_init) as [A B]. cbv zeta. unfold run.
  split; auto. split; auto. split; [eapply Inv_ids_unique|eapply Inv_size]; eauto.
Qed.

(* ... and whatever operation comes next acts on the multiset of live items as specified *)
Theorem run_step ops o : let s := run lt ops in let s' := run lt (ops ++ [o]) in
  op_spec o (snext s) (abs (sh s)) (step_ret lt s o) (abs (sh s')) /\
  snext s' = next_after_op o (snext s) /\ (forall y, In y (abs (sh s)) -> 0 <= snd y < snext s).
Proof.
  cbv zeta. unfold run. rewrite fold_left_app. cbn [fold_left].
  pose proof (fold_inv ops init SInv_init) as Hs.
  destruct (step_spec _ o Hs) as [A [B C]]. split; auto. split; auto.
  destruct Hs as [_ I]. apply (Inv_ids_range _ _ I).
Qed.

(* ---- the executable statement holds_C16 (FibHeapSpec.v) follows from the multiset refinement ---- *)
Definition flip (p : Z * Z) : Z * Z := (snd p, fst p).
(* the reference's association list (id, key) against the abstract multiset (key, id) *)
Definition live_rel (l : live) (A : list (Z * Z)) : Prop := Permutation (map flip l) A.

Lemma lookup_in i : forall l k, lookup i l = Some k -> In (i, k) l.
Proof.
  induction l as [|[j k'] l IH]; simpl; intros k H; [discriminate|].
  destruct (Z.eqb i j) eqn:E.
  - apply Z.eqb_eq in E. inversion H; subst. auto.
  - auto.
Qed.

Lemma lookup_nodup i k : forall l, NoDup (map fst l) -> In (i, k) l -> lookup i l = Some k.
Proof.
  induction l as [|[j k'] l IH]; simpl; intros Hn H; [tauto|].
  inversion Hn as [|? ? Hj Hn']; subst.
  destruct (Z.eqb i j) eqn:E.
  - apply Z.eqb_eq in E. subst j. destruct H as [H|H]; [inversion H; auto|].
    exfalso. apply Hj. apply (in_map fst) in H. exact H.
  - destruct H as [H|H]; [inversion H; subst; rewrite Z.eqb_refl in E; discriminate|auto].
Qed.

Lemma delete_perm i : forall l k, lookup i l = Some k -> Permutation l ((i, k) :: delete i l).
Proof.
  induction l as [|[j k'] l IH]; simpl; intros k H; [discriminate|].
  destruct (Z.eqb i j) eqn:E.
  - apply Z.eqb_eq in E. inversion H; subst. reflexivity.
  - rewrite perm_swap. constructor. auto.
Qed.

Lemma update_perm i k : forall l k0, lookup i l = Some k0 -> Permutation (update i k l) ((i, k) :: delete i l).
Proof.
  induction l as [|[j k'] l IH]; simpl; intros k0 H; [discriminate|].
  destruct (Z.eqb i j) eqn:E.
  - apply Z.eqb_eq in E. subst. reflexivity.
  - rewrite perm_swap. constructor. eauto.
Qed.

Lemma live_in l A i k : live_rel l A -> (In (i, k) l <-> In (k, i) A).
Proof.
  intros R. split; intros H.
  - eapply Permutation_in; [apply R|]. apply in_map_iff. exists (i, k). auto.
  - eapply Permutation_in in H; [|symmetry; apply R]. apply in_map_iff in H.
    destruct H as [[a b] [H1 H2]]. unfold flip in H1. simpl in H1. inversion H1; subst. auto.
Qed.

Lemma live_nodup l A : live_rel l A -> NoDup (map snd A) -> NoDup (map fst l).
Proof.
  intros R H. eapply Permutation_NoDup in H; [|apply Permutation_map; symmetry; apply R].
  rewrite map_map in H. exact H.
Qed.

Lemma nodup_snd (A : list (Z * Z)) a b i : NoDup (map snd A) -> In (a, i) A -> In (b, i) A -> a = b.
Proof.
  induction A as [|[c j] A IH]; simpl; intros Hn H1 H2; [tauto|].
  inversion Hn as [|? ? Hj Hn']; subst.
  destruct H1 as [H1|H1], H2 as [H2|H2].
  - congruence.
  - inversion H1; subst. exfalso. apply Hj. apply (in_map snd) in H2. exact H2.
  - inversion H2; subst. exfalso. apply Hj. apply (in_map snd) in H1. exact H1.
  - auto.
Qed.

Lemma live_delete l A i k A' : live_rel l A -> lookup i l = Some k -> Permutation A ((k, i) :: A') ->
  live_rel (delete i l) A'.
Proof.
  intros R Hl P. unfold live_rel in *. apply (Permutation_cons_inv (a := (k, i))).
  transitivity (map flip l); [symmetry; apply (Permutation_map flip (delete_perm i l k Hl))|].
  transitivity A; auto.
Qed.

Lemma is_min_ok l A m k : live_rel l A -> NoDup (map snd A) -> In (k, m) A -> minimal k A ->
  is_min lt m k l = true.
Proof.
  intros R Hn Hin Hmin. unfold is_min.
  rewrite (lookup_nodup m k l (live_nodup _ _ R Hn) (proj2 (live_in _ _ _ _ R) Hin)).
  rewrite Z.eqb_refl. simpl. apply forallb_forall. intros [i k0] He.
  apply (proj1 (live_in _ _ _ _ R)) in He. apply Hmin in He. simpl in *. rewrite He. reflexivity.
Qed.

Lemma live_nil l A : live_rel l A -> (l = [] <-> A = []).
Proof.
  intros R. split; intros ->.
  - apply Permutation_nil. exact R.
  - unfold live_rel in R. symmetry in R. apply Permutation_nil in R. destruct l; [auto|discriminate].
Qed.

Lemma ref_step_ok o l next A r A' : live_rel l A -> NoDup (map snd A) -> wf_step l o = true ->
  op_spec o next A r A' ->
  exists l', ref_step lt l next o r = (true, l', next_after_op o next) /\ live_rel l' A'.
Proof.
  intros R Hn Hwf S. destruct o as [k| | |i k|i]; cbn [op_spec next_after_op wf_step] in *.
  - destruct S as [-> P]. simpl. rewrite !Z.eqb_refl. eexists. split; [reflexivity|].
    unfold live_rel in *. simpl. unfold flip at 1. simpl. rewrite P, R. reflexivity.
  - (* Pop *)
    destruct S as [[HA [-> ->]]|[m [k [-> [Hmin P]]]]].
    + apply (live_nil _ _ R) in HA. subst l. simpl. eexists. split; [reflexivity|auto].
    + assert (Hin : In (k, m) A) by (eapply Permutation_in; [symmetry; apply P|left; reflexivity]).
      destruct l as [|p l0].
      { pose proof (proj1 (live_nil _ _ R) eq_refl). subst A. destruct Hin. }
      unfold ref_step. rewrite (is_min_ok (p :: l0) A m k); auto.
      eexists. split; [reflexivity|]. eapply live_delete; eauto.
      apply lookup_nodup; [eapply live_nodup; eauto|]. apply (live_in _ _ _ _ R). auto.
  - (* Peek *)
    destruct S as [[HA [-> ->]]|[m [k [-> [Hin [Hmin ->]]]]]].
    + apply (live_nil _ _ R) in HA. subst l. simpl. eexists. split; [reflexivity|auto].
    + destruct l as [|p l0].
      { pose proof (proj1 (live_nil _ _ R) eq_refl). subst A. destruct Hin. }
      unfold ref_step. rewrite (is_min_ok (p :: l0) A m k); auto.
      eexists. split; [reflexivity|auto].
  - (* DecreaseKey *)
    destruct (lookup i l) as [old|] eqn:Hl; [|discriminate].
    assert (Hold : In (old, i) A) by (apply (live_in _ _ _ _ R); apply lookup_in; auto).
    unfold ref_step. rewrite Hl.
    destruct S as [[H _]|[[kx [H1 [H2 [-> ->]]]]|[kx [E [P [H2 [-> P']]]]]]].
    + exfalso. apply H. apply (in_map snd) in Hold. exact Hold.
    + assert (kx = old) by (eapply nodup_snd; eauto). subst kx. rewrite H2.
      eexists. split; [reflexivity|auto].
    + assert (kx = old).
      { eapply nodup_snd; eauto. eapply Permutation_in; [symmetry; apply P|left; reflexivity]. }
      subst kx. rewrite H2. eexists. split; [reflexivity|].
      unfold live_rel. rewrite (update_perm i k l old Hl), P'. simpl. unfold flip at 1. simpl.
      constructor. apply (live_delete l A i old E R Hl P).
  - (* Remove *)
    destruct (lookup i l) as [old|] eqn:Hl; [|discriminate].
    assert (Hold : In (old, i) A) by (apply (live_in _ _ _ _ R); apply lookup_in; auto).
    unfold ref_step. rewrite Hl.
    destruct S as [-> [[H _]|[kx P]]].
    + exfalso. apply H. apply (in_map snd) in Hold. exact Hold.
    + assert (kx = old).
      { eapply nodup_snd; eauto. eapply Permutation_in; [symmetry; apply P|left; reflexivity]. }
      subst kx. eexists. split; [reflexivity|]. eapply live_delete; eauto.
Qed.

(* an observed history whose return values and lengths are the model's *)
Fixpoint agrees (s : mstate) (h : list (op * obs)) : Prop :=
  match h with
  | [] => True
  | (o, ob) :: rest => o_ret ob = step_ret lt s o /\ o_len ob = hn (sh (step lt s o)) /\ agrees (step lt s o) rest
  end.

Lemma ref_run_agrees : forall h s l, SInv s -> live_rel l (abs (sh s)) -> agrees s h ->
  ref_run lt true true l (snext s) h = true.
Proof.
  induction h as [|[o ob] rest IH]; intros s l Hs R Ha; [reflexivity|].
  cbn [ref_run]. destruct (wf_step l o) eqn:Hwf; [|reflexivity].
  destruct Ha as [Hr [Hlen Ha]].
  destruct (step_spec s o Hs) as [Hs' [Hnx Hop]].
  destruct Hs as [He I].
  destruct (ref_step_ok o l (snext s) _ _ _ R (Inv_ids_unique _ _ I) Hwf Hop) as [l' [Hrs R']].
  rewrite Hr, Hrs. rewrite <- Hnx. rewrite (IH _ l' Hs' R' Ha).
  destruct Hs' as [_ I']. rewrite Hlen, (Inv_size _ _ I').
  rewrite <- (Permutation_length R'), map_length. rewrite Z.eqb_refl. reflexivity.
Qed.

(* ---- smallest / largest ---- *)
Definition small_spec (keys : list Z) (n : Z) (out : list (Z * Z)) : Prop :=
  exists rest, Permutation (kitems 0 keys) (out ++ rest) /\
    Z.of_nat (length out) = Z.min (Z.max n 0) (Z.of_nat (length keys)) /\
    (forall a b, In a out -> In b rest -> lt (fst b) (fst a) = false) /\
    (n < Z.of_nat (length keys) -> sorted_by lt (map fst out) = true).

Lemma pushes_spec : forall keys s, SInv s ->
  let s' := fold_left (step lt) (map Push keys) s in
  SInv s' /\ Permutation (abs (sh s')) (kitems (snext s) keys ++ abs (sh s)).
Proof.
  induction keys as [|k keys IH]; intros s Hs; cbn [map fold_left kitems].
  - split; auto.
  - destruct (step_spec s (Push k) Hs) as [Hs' [Hnx [_ P]]]. cbn [next_after_op] in Hnx.
    destruct (IH _ Hs') as [A B]. split; auto. rewrite B, Hnx, P. symmetry. apply Permutation_middle.
Qed.

Lemma pop_n_spec : forall n h next, Inv h next -> (n <= length (abs h))%nat ->
  let out := pop_n lt n h in
  exists rest, length out = n /\ Permutation (abs h) (out ++ rest) /\
    (forall a b, In a out -> In b rest -> lt (fst b) (fst a) = false) /\
    sorted_by lt (map fst out) = true /\ Forall (fun a => In a (abs h)) out.
Proof.
  induction n as [|n IH]; intros h next I Hn; cbn [pop_n].
  - exists (abs h). repeat split; auto. intros a b [].
  - pose proof (Inv_size _ _ I) as Hsz.
    destruct (Z.leb (hn h) 0) eqn:Ez; [apply Z.leb_le in Ez; lia|].
    destruct (pop_spec h next I) as [[A B]|[h' [m [k [A [B [C D]]]]]]].
    { unfold abs in Hn. rewrite A in Hn. simpl in Hn. lia. }
    rewrite A.
    assert (Hn' : (n <= length (abs h'))%nat).
    { apply Permutation_length in C. simpl in C. lia. }
    destruct (IH h' next B Hn') as [rest [L [P [M [S F]]]]].
    assert (Hsub : forall y, In y (abs h') -> In y (abs h)).
    { intros y Hy. eapply Permutation_in; [symmetry; apply C|right; auto]. }
    exists rest. split; [simpl; congruence|]. split; [rewrite C, P; reflexivity|]. split; [|split].
    + intros a b [<-|Ha] Hb; [|auto]. simpl. apply D. apply Hsub.
      eapply Permutation_in; [symmetry; apply P|apply in_or_app; auto].
    + cbn [map fst]. destruct (pop_n lt n h') as [|b out'] eqn:Eo; [reflexivity|].
      cbn [map] in *.
      change (sorted_by lt (k :: fst b :: map fst out')) with (negb (lt (fst b) k) && sorted_by lt (fst b :: map fst out')).
      rewrite S.
      inversion F as [|? ? Fb _]; subst. rewrite (D b (Hsub b Fb)). reflexivity.
    + constructor; [eapply Permutation_in; [symmetry; apply C|left; reflexivity]|].
      eapply Forall_impl; [|apply F]. auto.
Qed.

Lemma kitems_length : forall keys i, length (kitems i keys) = length keys.
Proof. induction keys as [|k keys IH]; intros i; simpl; [reflexivity|]. rewrite IH. reflexivity. Qed.

Theorem small_model_spec keys n : small_spec keys n (small_model lt keys n).
Proof.
  unfold small_model, small_spec. destruct (Z.leb (Z.of_nat (length keys)) n) eqn:E.
  - apply Z.leb_le in E. exists []. rewrite app_nil_r. split; auto. split.
    + rewrite kitems_length. lia.
    + split; [intros a b _ []|lia].
  - apply Z.leb_gt in E.
    destruct (pushes_spec keys init SInv_init) as [[_ I] P]. fold (run lt (map Push keys)) in *.
    simpl in P. rewrite app_nil_r in P.
    destruct (pop_n_spec (Z.to_nat n) _ _ I) as [rest [A [B [C [D _]]]]].
    { rewrite (Permutation_length P), kitems_length. lia. }
    exists rest. split; [rewrite <- P; auto|]. split; [rewrite A; lia|]. split; auto.
Qed.

(* the executable check evaluated on the real generator's output means what it says *)
Lemma rm1_perm p : forall l l', rm1 p l = Some l' -> Permutation l (p :: l').
Proof.
  induction l as [|q r IH]; simpl; intros l' H; [discriminate|].
  destruct (pair_eqb p q) eqn:E.
  - inversion H; subst. unfold pair_eqb in E. apply andb_true_iff in E. destruct E as [E1 E2].
    apply Z.eqb_eq in E1, E2. destruct p, q; simpl in *; subst. reflexivity.
  - destruct (rm1 p r) as [r'|]; [|discriminate]. inversion H; subst.
    rewrite (IH r' eq_refl). apply perm_swap.
Qed.

Lemma take_out_perm : forall out l rest, take_out l out = Some rest -> Permutation l (out ++ rest).
Proof.
  induction out as [|p out IH]; simpl; intros l rest H.
  - inversion H; subst. reflexivity.
  - destruct (rm1 p l) as [l'|] eqn:E; [|discriminate].
    rewrite (rm1_perm _ _ _ E). constructor. auto.
Qed.

Theorem holds_small_sound keys n out : holds_small lt keys n out = true -> small_spec keys n out.
Proof.
  unfold holds_small. intros H. apply andb_true_iff in H. destruct H as [H H3].
  apply andb_true_iff in H. destruct H as [H1 H2].
  destruct (take_out (kitems 0 keys) out) as [rest|] eqn:E; [|discriminate].
  exists rest. split; [apply take_out_perm; auto|]. split; [apply Z.eqb_eq; auto|]. split.
  - intros a b Ha Hb. rewrite forallb_forall in H2. specialize (H2 a Ha).
    rewrite forallb_forall in H2. specialize (H2 b Hb). apply negb_true_iff in H2. exact H2.
  - intros Hn. apply orb_true_iff in H3. destruct H3 as [H3|H3]; auto. apply Z.leb_le in H3. lia.
Qed.

(* ---- from the lock-step correspondence to the executable statement ---- *)
Lemma ret_eqb_eq a b : ret_eqb a b = true -> a = b.
Proof.
  destruct a as [|i k|e], b as [|i' k'|e']; simpl; intros H; try discriminate; auto.
  - apply andb_true_iff in H. destruct H as [H1 H2]. apply Z.eqb_eq in H1, H2. congruence.
  - destruct e, e'; simpl in H; try discriminate; reflexivity.
Qed.

Lemma corr_run_agrees : forall h s, corr_run lt s h = true -> agrees s h.
Proof.
  induction h as [|[o ob] rest IH]; intros s H; cbn [corr_run agrees] in *; [exact I|].
  repeat (apply andb_true_iff in H; destruct H as [H ?]).
  split; [symmetry; apply ret_eqb_eq; auto|]. split; [symmetry; apply Z.eqb_eq; auto|]. auto.
Qed.

Lemma model_obs_agrees : forall ops s, agrees s (model_obs lt s ops).
Proof. induction ops as [|o ops IH]; intros s; cbn [model_obs agrees]; auto. Qed.

Lemma live_rel_init : live_rel [] (abs (sh init)).
Proof. unfold live_rel. reflexivity. Qed.

Lemma ref_run_corr h : corr_run lt init h = true -> ref_run lt true true [] 0 h = true.
Proof.
  intros H. apply (ref_run_agrees h init [] SInv_init live_rel_init). apply corr_run_agrees. exact H.
Qed.

Lemma ref_run_model ops : ref_run lt true true [] 0 (model_obs lt init ops) = true.
Proof. apply (ref_run_agrees _ init [] SInv_init live_rel_init). apply model_obs_agrees. Qed.

End Order.

(* ---- the two orders of the real heaps: `<` (FibonacciHeap) and ReversedComparator's `>` (MaxFibonacciHeap) ---- *)
Lemma key_lt_irrefl mx a : key_lt mx a a = false.
Proof. destruct mx; simpl; apply Z.ltb_irrefl. Qed.
Lemma key_lt_trans mx a b c : key_lt mx a b = true -> key_lt mx b c = true -> key_lt mx a c = true.
Proof. destruct mx; simpl; rewrite !Z.ltb_lt; lia. Qed.
Lemma key_lt_total mx a b : key_lt mx a b = true \/ a = b \/ key_lt mx b a = true.
Proof. destruct mx; simpl; rewrite !Z.ltb_lt; lia. Qed.

Definition strict_total (lt : Z -> Z -> bool) : Prop :=
  (forall a, lt a a = false) /\ (forall a b c, lt a b = true -> lt b c = true -> lt a c = true) /\
  (forall a b, lt a b = true \/ a = b \/ lt b a = true).

Lemma key_lt_strict_total mx : strict_total (key_lt mx).
Proof. split; [apply key_lt_irrefl|]. split; [apply key_lt_trans|apply key_lt_total]. Qed.

(* C16, any strict total order on the keys: after EVERY history the model has reported no internal error
   (no missing node, no exhausted fuel in consolidate / the deleted-min loop), the invariant holds, item ids
   are unique, and the reported size is the number of live items *)
Theorem C16_invariant lt : strict_total lt -> forall ops, let s := run lt ops in
  serr s = false /\ Inv lt (sh s) (snext s) /\ NoDup (map snd (abs (sh s))) /\
  hn (sh s) = Z.of_nat (length (abs (sh s))).
Proof. intros [A [B C]]. apply run_inv; auto. Qed.

(* ... and every next operation returns / changes the multiset of live (key, id) pairs as specified:
   peek shows and pop returns-and-removes an item with a minimal key; push, decrease_key, remove act on the
   multiset as they should (non-members are left alone, key increases raise ValueError and change nothing) *)
Theorem C16_operation lt : strict_total lt -> forall ops o,
  let s := run lt ops in let s' := run lt (ops ++ [o]) in
  op_spec lt o (snext s) (abs (sh s)) (step_ret lt s o) (abs (sh s')) /\
  snext s' = next_after_op o (snext s) /\ (forall y, In y (abs (sh s)) -> 0 <= snd y < snext s).
Proof. intros [A [B C]]. apply run_step; auto. Qed.

Theorem C16_min ops o : let lt := key_lt false in
  let s := run lt ops in let s' := run lt (ops ++ [o]) in
  serr s = false /\ Inv lt (sh s) (snext s) /\ hn (sh s) = Z.of_nat (length (abs (sh s))) /\
  op_spec lt o (snext s) (abs (sh s)) (step_ret lt s o) (abs (sh s')).
Proof.
  cbv zeta. destruct (C16_invariant _ (key_lt_strict_total false) ops) as [A [B [_ C]]].
  destruct (C16_operation _ (key_lt_strict_total false) ops o) as [D _]. auto.
Qed.

Theorem C16_max ops o : let lt := key_lt true in
  let s := run lt ops in let s' := run lt (ops ++ [o]) in
  serr s = false /\ Inv lt (sh s) (snext s) /\ hn (sh s) = Z.of_nat (length (abs (sh s))) /\
  op_spec lt o (snext s) (abs (sh s)) (step_ret lt s o) (abs (sh s')).
Proof.
  cbv zeta. destruct (C16_invariant _ (key_lt_strict_total true) ops) as [A [B [_ C]]].
  destruct (C16_operation _ (key_lt_strict_total true) ops o) as [D _]. auto.
Qed.

(* per-operation forms on any heap state satisfying the invariant *)
Theorem C16_push lt : strict_total lt -> forall h next k, Inv lt h next ->
  exists h', push lt next k h = (h', RItem next k, false) /\ Inv lt h' (next + 1) /\
             Permutation (abs h') ((k, next) :: abs h).
Proof. intros [A [B C]]. apply push_spec; auto. Qed.

Theorem C16_peek lt : strict_total lt -> forall h next, Inv lt h next ->
  (roots h = [] /\ peek lt h = (h, RExc AttributeError, false)) \/
  (exists m k, peek lt h = (h, RItem m k, false) /\ In (k, m) (abs h) /\
               forall y, In y (abs h) -> lt (fst y) k = false).
Proof. intros [A [B C]]. apply peek_spec; auto. Qed.

Theorem C16_pop lt : strict_total lt -> forall h next, Inv lt h next ->
  (roots h = [] /\ pop lt h = (h, RExc AttributeError, false)) \/
  (exists h' m k, pop lt h = (h', RItem m k, false) /\ Inv lt h' next /\
                  Permutation (abs h) ((k, m) :: abs h') /\
                  forall y, In y (abs h) -> lt (fst y) k = false).
Proof. intros [A [B C]]. apply pop_spec; auto. Qed.

Theorem C16_decrease_key lt : strict_total lt -> forall h next x k, Inv lt h next ->
  exists h' r, decrease_key lt x k h = (h', r, false) /\ Inv lt h' next /\
    ((~ In x (map snd (abs h)) /\ h' = h /\ r = RNone) \/
     (exists kx, In (kx, x) (abs h) /\ lt kx k = true /\ h' = h /\ r = RExc ValueError) \/
     (exists kx E, Permutation (abs h) ((kx, x) :: E) /\ lt kx k = false /\ r = RNone /\
                   Permutation (abs h') ((k, x) :: E))).
Proof. intros [A [B C]]. apply decrease_key_spec; auto. Qed.

Theorem C16_remove lt : strict_total lt -> forall h next x, Inv lt h next ->
  exists h', remove lt x h = (h', RNone, false) /\ Inv lt h' next /\
    ((~ In x (map snd (abs h)) /\ h' = h) \/ (exists kx, Permutation (abs h) ((kx, x) :: abs h'))).
Proof. intros [A [B C]]. apply remove_spec; auto. Qed.

(* the executable statement evaluated by the harness: true on the model's own outputs for every history
   and both heaps; and true on any observed history that passes the lock-step correspondence *)
Theorem C16_holds mx ops : holds_C16 (model_case mx ops) = true.
Proof.
  unfold holds_C16, model_case. cbn [c_max c_ops].
  apply ref_run_model; [apply key_lt_irrefl|apply key_lt_trans|apply key_lt_total].
Qed.

Theorem C16_corr_holds c : corr_C16 c = true -> holds_C16 c = true.
Proof.
  unfold corr_C16, holds_C16. apply ref_run_corr; [apply key_lt_irrefl|apply key_lt_trans|apply key_lt_total].
Qed.

(* smallest / largest *)
Theorem C16_smallest keys n : small_spec (key_lt false) keys n (small_model (key_lt false) keys n).
Proof. apply small_model_spec; [apply key_lt_irrefl|apply key_lt_trans|apply key_lt_total]. Qed.

Theorem C16_largest keys n : small_spec (key_lt true) keys n (small_model (key_lt true) keys n).
Proof. apply small_model_spec; [apply key_lt_irrefl|apply key_lt_trans|apply key_lt_total]. Qed.

Theorem C16_small_sound c : holds_C16s c = true ->
  small_spec (key_lt (s_max c)) (s_keys c) (s_n c) (s_out c).
Proof. apply holds_small_sound. Qed.

Lemma list_eqb_pair_eq : forall l l', list_eqb pair_eqb l l' = true -> l = l'.
Proof.
  induction l as [|[a b] l IH]; destruct l' as [|[a' b'] l']; simpl; intros H; try discriminate; auto.
  apply andb_true_iff in H. destruct H as [H1 H2]. unfold pair_eqb in H1. simpl in H1.
  apply andb_true_iff in H1. destruct H1 as [H0 H1]. apply Z.eqb_eq in H0, H1. subst. f_equal. auto.
Qed.

Theorem C16_small_corr c : corr_C16s c = true ->
  small_spec (key_lt (s_max c)) (s_keys c) (s_n c) (s_out c).
Proof.
  unfold corr_C16s. intros H. apply list_eqb_pair_eq in H. rewrite H.
  apply small_model_spec; [apply key_lt_irrefl|apply key_lt_trans|apply key_lt_total].
Qed.

(* ---- the statements are about non-trivial objects ---- *)
Definition ex_ops : list op :=
  [Push 5; Push 3; Push 7; Push 3; Push 9; Push 1; Pop; DecreaseKey 4 2; DecreaseKey 2 8; Remove 1; Peek; Pop; Pop].

(* min-heap: after the history the live items are 7 (id 2) and 5 (id 0); consolidation into a tree with
   children, a cut that marks the parent, a rejected key increase and a removal occurred on the way *)
Example ex_min_history :
  let s := run (key_lt false) ex_ops in
  serr s = false /\ abs (sh s) = [(5, 0); (7, 2)] /\ hn (sh s) = 2 /\
  map (fun n => step_ret (key_lt false) (run (key_lt false) (firstn n ex_ops)) (nth n ex_ops Peek)) [6; 8; 10; 11; 12]%nat
  = [RItem 5 1; RExc ValueError; RItem 4 2; RItem 4 2; RItem 3 3].
Proof. vm_compute. repeat split. Qed.

Example ex_max_history :
  let s := run (key_lt true) [Push 5; Push 3; Push 7; Push 3; Pop; DecreaseKey 1 6; Pop] in
  serr s = false /\ abs (sh s) = [(5, 0); (3, 3)] /\
  step_ret (key_lt true) s Pop = RItem 0 5.
Proof. vm_compute. repeat split. Qed.

Example ex_holds : holds_C16 (model_case false ex_ops) = true /\ corr_C16 (model_case true ex_ops) = true /\
  wf_C16 (model_case false ex_ops) = true.
Proof. vm_compute. repeat split. Qed.

(* holds_C16 is not vacuous: a history whose pop returns a non-minimal item, and one whose length is wrong *)
Example ex_holds_rejects :
  holds_C16 {| c_max := false; c_ops :=
     [(Push 2, {| o_ret := RItem 0 2; o_len := 1; o_heap := empty; o_aux := [] |});
      (Push 1, {| o_ret := RItem 1 1; o_len := 2; o_heap := empty; o_aux := [] |});
      (Pop, {| o_ret := RItem 0 2; o_len := 1; o_heap := empty; o_aux := [] |})] |} = false /\
  holds_C16 {| c_max := false; c_ops :=
     [(Push 2, {| o_ret := RItem 0 2; o_len := 1; o_heap := empty; o_aux := [] |});
      (Pop, {| o_ret := RItem 0 2; o_len := 1; o_heap := empty; o_aux := [] |})] |} = false.
Proof. vm_compute. repeat split. Qed.

Example ex_smallest :
  small_model (key_lt false) [4; 1; 3; 1; 5] 3 = [(1, 1); (1, 3); (3, 2)] /\
  small_model (key_lt true) [4; 1; 3; 1; 5] 2 = [(5, 4); (4, 0)] /\
  small_model (key_lt false) [4; 1] 2 = [(4, 0); (1, 1)] /\
  holds_small (key_lt false) [4; 1; 3; 1; 5] 3 [(1, 1); (1, 3); (3, 2)] = true /\
  holds_small (key_lt false) [4; 1; 3; 1; 5] 3 [(1, 1); (3, 2); (1, 3)] = false /\
  holds_small (key_lt false) [4; 1; 3; 1; 5] 2 [(1, 1); (3, 2)] = false.
Proof. vm_compute. repeat split. Qed.

(* the definitions used in the statements, unfolded (so that PropC16.v fixes their meaning) *)
Lemma op_spec_meaning lt o next A r A' :
  op_spec lt o next A r A' <->
  match o with
  | Push k => r = RItem next k /\ Permutation A' ((k, next) :: A)
  | Peek => (A = [] /\ r = RExc AttributeError /\ A' = A) \/
            (exists m k, r = RItem m k /\ In (k, m) A /\ (forall y, In y A -> lt (fst y) k = false) /\ A' = A)
  | Pop => (A = [] /\ r = RExc AttributeError /\ A' = A) \/
           (exists m k, r = RItem m k /\ (forall y, In y A -> lt (fst y) k = false) /\ Permutation A ((k, m) :: A'))
  | DecreaseKey x k =>
      (~ In x (map snd A) /\ A' = A /\ r = RNone) \/
      (exists kx, In (kx, x) A /\ lt kx k = true /\ A' = A /\ r = RExc ValueError) \/
      (exists kx E, Permutation A ((kx, x) :: E) /\ lt kx k = false /\ r = RNone /\ Permutation A' ((k, x) :: E))
  | Remove x =>
      r = RNone /\ ((~ In x (map snd A) /\ A' = A) \/ (exists kx, Permutation A ((kx, x) :: A')))
  end.
Proof. destruct o; reflexivity. Qed.

Lemma Inv_meaning lt h next : Inv lt h next ->
  NoDup (map eid (entsl (roots h))) /\ Forall (hord lt) (roots h) /\
  hn h = Z.of_nat (length (entsl (roots h))) /\
  match minp h with
  | None => roots h = []
  | Some m => exists r, In r (roots h) /\ nid r = m /\
                        Forall (fun e => lt (ekey e) (nkey r) = false) (entsl (roots h))
  end /\
  Forall (fun e => edel e = false) (entsl (roots h)) /\
  Forall (fun e => 0 <= eid e < next) (entsl (roots h)).
Proof. intros [A B C D E F G]. repeat split; auto. Qed.

Lemma small_spec_meaning lt keys n out :
  small_spec lt keys n out <->
  exists rest, Permutation (kitems 0 keys) (out ++ rest) /\
    Z.of_nat (length out) = Z.min (Z.max n 0) (Z.of_nat (length keys)) /\
    (forall a b, In a out -> In b rest -> lt (fst b) (fst a) = false) /\
    (n < Z.of_nat (length keys) -> sorted_by lt (map fst out) = true).
Proof. reflexivity. Qed.
