(* C16: invariant and multiset refinement of the Fibonacci-heap model, for every history and every strict
   total order on the keys. *)
From Coq Require Import List Bool ZArith Lia Permutation.
Require Import GT.PyBase GT.FibHeapSpec GT.FibHeapModel.
Import ListNotations.
Open Scope Z_scope.

(* entries of a tree: (key, id, deleted) of every node *)
Notation ent := (Z * Z * bool)%type (only parsing).
Definition ekey (e : ent) : Z := fst (fst e).
Definition eid (e : ent) : Z := snd (fst e).
Definition edel (e : ent) : bool := snd e.

Fixpoint ents (t : hnode) : list ent :=
  match t with HNode i k m d ks => (k, i, d) :: flat_map ents ks end.
Definition entsl (l : list hnode) : list ent := flat_map ents l.
Definition nent (t : hnode) : ent := (nkey t, nid t, ndel t).

Lemma hnode_ind' (P : hnode -> Prop) :
  (forall i k m d ks, Forall P ks -> P (HNode i k m d ks)) -> forall t, P t.
Proof.
  intros H. fix IH 1. intros [i k m d ks]. apply H.
  induction ks as [|c r IHr]; constructor; auto.
Qed.

Lemma ents_unfold t : ents t = nent t :: entsl (nkids t).
Proof. destruct t; reflexivity. Qed.

Lemma entsl_app a b : entsl (a ++ b) = entsl a ++ entsl b.
Proof. unfold entsl. apply flat_map_app. Qed.

Lemma entsl_cons x l : entsl (x :: l) = ents x ++ entsl l.
Proof. reflexivity. Qed.

Lemma ents_set_mark m t : ents (set_mark m t) = ents t.
Proof. destruct t; reflexivity. Qed.

Lemma entsl_ring_add x l : Permutation (entsl (ring_add x l)) (ents x ++ entsl l).
Proof.
  destruct l as [|r rest]; unfold ring_add.
  - reflexivity.
  - rewrite !entsl_cons. rewrite !app_assoc. apply Permutation_app_tail. apply Permutation_app_comm.
Qed.

Lemma ents_add_child y x : Permutation (ents (add_child y x)) (ents x ++ ents y).
Proof.
  destruct x as [i k m d ks]. unfold add_child, set_kids. simpl.
  constructor. change (flat_map ents) with entsl.
  rewrite entsl_ring_add, ents_set_mark. apply Permutation_app_comm.
Qed.

Lemma nid_add_child y x : nid (add_child y x) = nid x.
Proof. destruct x; reflexivity. Qed.
Lemma nkey_add_child y x : nkey (add_child y x) = nkey x.
Proof. destruct x; reflexivity. Qed.
Lemma ndel_add_child y x : ndel (add_child y x) = ndel x.
Proof. destruct x; reflexivity. Qed.

Lemma In_ring_add {A : Type} (P : hnode -> Prop) x l : P x -> Forall P l -> Forall P (ring_add x l).
Proof. intros Hx Hl. destruct l; simpl; [auto|]. inversion Hl; subst. auto. Qed.

(* ---- a small solver for Permutation goals between concatenations of the same atoms ---- *)
Lemma perm_find_head {A} (a l r1 r2 : list A) :
  Permutation l (r1 ++ r2) -> Permutation (a ++ l) (r1 ++ a ++ r2).
Proof.
  intros H. rewrite H. rewrite !app_assoc. apply Permutation_app_tail. apply Permutation_app_comm.
Qed.

Ltac perm_norm :=
  repeat match goal with
         | |- context [?x :: ?l] => lazymatch l with nil => fail | _ => change (x :: l) with ([x] ++ l) end
         end;
  match goal with |- Permutation ?L ?R => rewrite <- (app_nil_r L), <- (app_nil_r R) end;
  rewrite <- ?app_assoc; rewrite ?app_nil_l.

Ltac perm_split a R :=
  lazymatch R with
  | a ++ ?r2 => constr:((@nil ent, r2))
  | ?b ++ ?R' => let p := perm_split a R' in
                 lazymatch p with (?r1, ?r2) => constr:((b ++ r1, r2)) end
  end.

Ltac perm_step :=
  lazymatch goal with
  | |- Permutation [] [] => reflexivity
  | |- Permutation (?a ++ ?L) ?R =>
      let p := perm_split a R in
      lazymatch p with
      | (?r1, ?r2) =>
          transitivity (r1 ++ a ++ r2);
          [apply perm_find_head; rewrite <- ?app_assoc; rewrite ?app_nil_l
          |rewrite <- ?app_assoc; rewrite ?app_nil_l; reflexivity]
      end
  end.

Ltac perm := perm_norm; repeat perm_step.

Section Order.
Variable lt : Z -> Z -> bool.
Hypothesis lt_irrefl : forall a, lt a a = false.
Hypothesis lt_trans : forall a b c, lt a b = true -> lt b c = true -> lt a c = true.
Hypothesis lt_total : forall a b, lt a b = true \/ a = b \/ lt b a = true.

Lemma lt_asym a b : lt a b = true -> lt b a = false.
Proof.
  intros H. destruct (lt b a) eqn:E; auto.
  rewrite <- (lt_irrefl a). symmetry. eapply lt_trans; eauto.
Qed.

Lemma lt_negtrans a b c : lt a b = false -> lt b c = false -> lt a c = false.
Proof.
  intros H1 H2. destruct (lt a c) eqn:E; auto.
  destruct (lt_total b a) as [H|[H|H]].
  - rewrite (lt_trans _ _ _ H E) in H2. discriminate.
  - subst. congruence.
  - congruence.
Qed.

(* heap order: no child key is strictly less than its parent's *)
Inductive hord : hnode -> Prop :=
| hord_i : forall i k m d ks, Forall (fun c => lt (nkey c) k = false) ks -> Forall hord ks ->
    hord (HNode i k m d ks).

Lemma hord_inv t : hord t -> Forall (fun c => lt (nkey c) (nkey t) = false) (nkids t) /\ Forall hord (nkids t).
Proof. intros H. inversion H; subst. simpl. auto. Qed.

Lemma hord_set_mark m t : hord t -> hord (set_mark m t).
Proof. intros H. inversion H; subst. constructor; auto. Qed.

Lemma nkey_set_mark m t : nkey (set_mark m t) = nkey t.
Proof. destruct t; reflexivity. Qed.

Lemma hord_add_child y x : hord x -> hord y -> lt (nkey y) (nkey x) = false -> hord (add_child y x).
Proof.
  intros Hx Hy Hk. inversion Hx; subst. unfold add_child, set_kids. simpl in *.
  constructor.
  - apply (@In_ring_add unit); auto; rewrite nkey_set_mark; auto.
  - apply (@In_ring_add unit); auto; apply hord_set_mark; auto.
Qed.

(* the root of a heap-ordered tree carries a minimal key *)
Lemma hord_min t : hord t -> Forall (fun e => lt (ekey e) (nkey t) = false) (ents t).
Proof.
  induction t as [i k m d ks IH] using hnode_ind'. intros H. inversion H as [? ? ? ? ? Hk Hh]; subst. simpl.
  constructor; [apply lt_irrefl|].
  apply Forall_flat_map. rewrite Forall_forall in *. intros c Hc.
  specialize (IH c Hc (Hh c Hc)). rewrite Forall_forall in *. intros e He.
  eapply lt_negtrans; [apply IH; auto|]. apply Hk; auto.
Qed.


(* ---- _consolidate ---- *)
Definition G (t : hnode) : Prop := hord t /\ ndel t = false.

Lemma node_lt_clean a b : ndel a = false -> ndel b = false -> node_lt lt a b = lt (nkey a) (nkey b).
Proof. intros Ha Hb. unfold node_lt. rewrite Ha. reflexivity. Qed.

Lemma G_link_lt y x : G x -> G y -> node_lt lt y x = true -> G (add_child x y).
Proof.
  intros [Hx Dx] [Hy Dy] H. rewrite node_lt_clean in H by auto. split.
  - apply hord_add_child; auto. apply lt_asym; auto.
  - rewrite ndel_add_child. auto.
Qed.

Lemma G_link_ge y x : G x -> G y -> node_lt lt y x = false -> G (add_child y x).
Proof.
  intros [Hx Dx] [Hy Dy] H. rewrite node_lt_clean in H by auto. split.
  - apply hord_add_child; auto.
  - rewrite ndel_add_child. auto.
Qed.

Lemma split_deg_spec d l a y b : split_deg d l = Some (a, y, b) -> l = a ++ y :: b.
Proof.
  revert a y b. induction l as [|u r IH]; simpl; intros a y b H; [discriminate|].
  destruct (Nat.eqb (deg u) d).
  - inversion H; subst. reflexivity.
  - destruct (split_deg d r) as [[[a' y'] b']|]; [|discriminate].
    inversion H; subst. simpl. f_equal. apply IH. reflexivity.
Qed.

Ltac ex := repeat (rewrite entsl_app || rewrite entsl_cons).
Ltac fa := repeat (rewrite Forall_app in * || rewrite Forall_cons_iff in *).

Lemma cons_loop_spec fuel : forall pre x post r,
  cons_loop lt fuel pre x post = Some r -> Forall G (pre ++ x :: post) ->
  Permutation (entsl r) (entsl (pre ++ x :: post)) /\ Forall G r.
Proof.
  induction fuel as [|f IH]; simpl; intros pre x post r H HG; [discriminate|].
  destruct (split_deg (deg x) pre) as [[[a y] b]|] eqn:E1.
  - apply split_deg_spec in E1. subst pre. fa.
    destruct HG as [[Ha [Hy Hb]] [Hx Hp]].
    destruct (node_lt lt y x) eqn:L; apply IH in H.
    + destruct H as [P Q]. split; auto. rewrite P.
      ex. rewrite ents_add_child. perm.
    + fa. auto 10 using G_link_lt.
    + destruct H as [P Q]. split; auto. rewrite P.
      ex. rewrite ents_add_child. perm.
    + fa. auto 10 using G_link_ge.
  - destruct (split_deg (deg x) post) as [[[a y] b]|] eqn:E2.
    + apply split_deg_spec in E2. subst post. fa.
      destruct HG as [Hpre [Hx [Ha [Hy Hb]]]].
      destruct (node_lt lt y x) eqn:L; apply IH in H.
      * destruct H as [P Q]. split; auto. rewrite P.
        ex. rewrite ents_add_child. perm.
      * fa. auto 10 using G_link_lt.
      * destruct H as [P Q]. split; auto. rewrite P.
        ex. rewrite ents_add_child. perm.
      * fa. auto 10 using G_link_ge.
    + inversion H; subst. split; auto.
Qed.

(* the fuel of the inner `while` suffices: every iteration removes one root from the degree table *)
Lemma cons_loop_fuel fuel : forall pre x post,
  (length pre + length post < fuel)%nat -> exists r, cons_loop lt fuel pre x post = Some r.
Proof.
  induction fuel as [|f IH]; intros pre x post Hlen; [lia|]. simpl.
  destruct (split_deg (deg x) pre) as [[[a y] b]|] eqn:E1.
  - apply split_deg_spec in E1. subst pre. rewrite app_length in Hlen. simpl in Hlen.
    destruct (node_lt lt y x); apply IH; rewrite ?app_length; lia.
  - destruct (split_deg (deg x) post) as [[[a y] b]|] eqn:E2.
    + apply split_deg_spec in E2. subst post. rewrite app_length in Hlen. simpl in Hlen.
      destruct (node_lt lt y x); apply IH; rewrite ?app_length; lia.
    + eauto.
Qed.

Lemma cons_fold_total : forall todo acc, exists r, cons_fold lt acc todo = Some r.
Proof.
  induction todo as [|x rest IH]; intros acc; simpl; [eauto|].
  destruct (cons_loop_fuel (S (length acc)) acc x []) as [r Hr]; [simpl; lia|].
  simpl in Hr. rewrite Hr. apply IH.
Qed.

Lemma cons_fold_spec : forall todo acc r,
  cons_fold lt acc todo = Some r -> Forall G (acc ++ todo) ->
  Permutation (entsl r) (entsl (acc ++ todo)) /\ Forall G r.
Proof.
  induction todo as [|x rest IH]; intros acc r H HG.
  - simpl in H. inversion H; subst. rewrite app_nil_r in *. auto.
  - cbn [cons_fold] in H.
    destruct (cons_loop lt (S (length acc)) acc x []) as [acc'|] eqn:E; [|discriminate].
    apply cons_loop_spec in E; [|fa; intuition].
    destruct E as [P Q]. apply IH in H; [|fa; intuition].
    destruct H as [P' Q']. split; auto. rewrite P'. ex. rewrite P. ex. perm.
Qed.

(* ---- the final scan for the new _min ---- *)
Lemma In_ins_deg x l y : In y (ins_deg x l) <-> y = x \/ In y l.
Proof.
  induction l as [|u r IH]; simpl.
  - intuition.
  - destruct (Nat.leb (deg x) (deg u)); simpl; rewrite ?IH; intuition.
Qed.

Lemma In_sort_deg l y : In y (sort_deg l) <-> In y l.
Proof.
  induction l as [|u r IH]; simpl; [tauto|]. rewrite In_ins_deg, IH. intuition.
Qed.

Lemma node_le_clean a b : ndel a = false -> ndel b = false ->
  node_le lt a b = lt (nkey a) (nkey b) || Z.eqb (nkey a) (nkey b).
Proof. intros. unfold node_le. rewrite node_lt_clean; auto. Qed.

Lemma scan_min_spec : forall L m, Forall (fun t => ndel t = false) L -> ndel m = false ->
  let res := scan_min lt L m in
  (In res L \/ (res = m /\ forall r, In r L -> node_le lt r m = false)) /\
  (forall r, In r L -> lt (nkey r) (nkey res) = false) /\
  lt (nkey m) (nkey res) = false.
Proof.
  induction L as [|r L IH]; intros m HL Hm; simpl.
  - split; [right; split; auto; intros ? []|]. split; [intros ? []|]. apply lt_irrefl.
  - inversion HL as [|? ? Hr HL']; subst.
    destruct (node_le lt r m) eqn:E.
    + destruct (IH r HL' Hr) as [A [B C]]. unfold scan_min in *.
      split; [destruct A as [A|[A _]]; [auto|left; left; auto]|].
      split; [intros r' [<-|Hr']; auto|].
      rewrite node_le_clean in E by auto.
      eapply lt_negtrans; [|apply C].
      apply orb_true_iff in E. destruct E as [E|E].
      * apply lt_asym; auto.
      * apply Z.eqb_eq in E. rewrite E. apply lt_irrefl.
    + destruct (IH m HL' Hm) as [A [B C]]. unfold scan_min in *.
      split; [destruct A as [A|[A A']]; [auto|right; split; auto; intros r' [<-|Hr']; auto]|].
      split; [|auto]. intros r' [<-|Hr']; auto.
      rewrite node_le_clean in E by auto. apply orb_false_iff in E. destruct E as [E _].
      eapply lt_negtrans; eauto.
Qed.

(* if some scanned root is not above m, the scan ends on a scanned root *)
Lemma scan_min_root L m r0 : Forall (fun t => ndel t = false) L -> ndel m = false ->
  In r0 L -> lt (nkey m) (nkey r0) = false -> In (scan_min lt L m) L.
Proof.
  intros HL Hm Hr0 Hk. destruct (scan_min_spec L m HL Hm) as [[A|[_ A]] _]; auto.
  specialize (A r0 Hr0). rewrite node_le_clean in A; auto.
  - apply orb_false_iff in A. destruct A as [A1 A2]. apply Z.eqb_neq in A2.
    destruct (lt_total (nkey r0) (nkey m)) as [T|[T|T]]; congruence.
  - rewrite Forall_forall in HL. auto.
Qed.

(* ---- _extract_min ---- *)
Lemma in_entsl e l : In e (entsl l) <-> exists t, In t l /\ In e (ents t).
Proof. unfold entsl. apply in_flat_map. Qed.

Lemma nent_in t : In (nent t) (ents t).
Proof. rewrite ents_unfold. left. reflexivity. Qed.

Lemma roots_min l k : Forall hord l -> (forall r, In r l -> lt (nkey r) k = false) ->
  Forall (fun e => lt (ekey e) k = false) (entsl l).
Proof.
  intros Hh Hr. apply Forall_forall. intros e He. apply in_entsl in He. destruct He as [t [Ht He]].
  rewrite Forall_forall in Hh. pose proof (hord_min t (Hh t Ht)) as Hm. rewrite Forall_forall in Hm.
  eapply lt_negtrans; [apply Hm; auto|]. auto.
Qed.

Lemma find_root_split z : forall l u, find_root z l = Some u ->
  exists p q, l = p ++ u :: q /\ Forall (fun r => nid r <> z) p /\ nid u = z.
Proof.
  induction l as [|r rest IH]; simpl; intros u H; [discriminate|].
  destruct (Z.eqb (nid r) z) eqn:E.
  - inversion H; subst. exists [], rest. apply Z.eqb_eq in E. auto.
  - apply IH in H. destruct H as [p [q [-> [Hp Hu]]]]. exists (r :: p), q.
    apply Z.eqb_neq in E. auto.
Qed.

Lemma zip_ops z u q f : forall p, Forall (fun r => nid r <> z) p -> nid u = z ->
  find_root z (p ++ u :: q) = Some u /\ del z (p ++ u :: q) = p ++ q /\
  next_after z f (p ++ u :: q) = Some (hd f q).
Proof.
  induction p as [|r p IH]; intros Hp Hu; simpl.
  - apply Z.eqb_eq in Hu. rewrite Hu. destruct q; auto.
  - inversion Hp as [|? ? Hr Hp']; subst. apply Z.eqb_neq in Hr. rewrite Hr.
    destruct (IH Hp' eq_refl) as [A [B C]]. rewrite A, B, C. auto.
Qed.

Lemma splice_cons : forall ks r rest, splice (r :: rest) ks = r :: rev ks ++ rest.
Proof.
  unfold splice. induction ks as [|c ks IH]; intros r rest; simpl; [reflexivity|].
  rewrite IH. rewrite <- app_assoc. reflexivity.
Qed.

Lemma entsl_rev l : Permutation (entsl (rev l)) (entsl l).
Proof.
  induction l as [|x l IH]; simpl; [reflexivity|]. ex. rewrite IH. simpl. rewrite app_nil_r.
  apply Permutation_app_comm.
Qed.

Definition min_ok (h : heap) : Prop :=
  match minp h with
  | None => roots h = []
  | Some m => exists r, In r (roots h) /\ nid r = m /\
                        Forall (fun e => lt (ekey e) (nkey r) = false) (entsl (roots h))
  end.

(* consolidation + scan on a non-empty clean heap-ordered root ring that contains nx *)
Lemma consolidate_ok l2 nx : l2 <> [] -> In nx l2 -> Forall G l2 ->
  exists l3, cons_fold lt [] l2 = Some l3 /\ Permutation (entsl l3) (entsl l2) /\ Forall hord l3 /\
    exists r, In r l3 /\ nid r = nid (scan_min lt (sort_deg l3) nx) /\
              Forall (fun e => lt (ekey e) (nkey r) = false) (entsl l3).
Proof.
  intros Hne Hnx HG. destruct (cons_fold_total l2 []) as [l3 H3]. exists l3. split; auto.
  destruct (cons_fold_spec l2 [] l3 H3 HG) as [P Q]. simpl in P. split; auto.
  assert (Hh : Forall hord l3) by (eapply Forall_impl; [|apply Q]; intros ? [? ?]; auto).
  assert (Hd : Forall (fun t => ndel t = false) l3) by (eapply Forall_impl; [|apply Q]; intros ? [? ?]; auto).
  split; auto.
  assert (Hdn : ndel nx = false) by (rewrite Forall_forall in HG; apply (HG nx Hnx)).
  assert (Hds : Forall (fun t => ndel t = false) (sort_deg l3)).
  { apply Forall_forall. intros t Ht. apply (proj1 (In_sort_deg _ _)) in Ht. rewrite Forall_forall in Hd. apply (Hd t Ht). }
  (* nx sits below some root r0 of l3 *)
  assert (He : In (nent nx) (entsl l3)).
  { eapply Permutation_in; [symmetry; apply P|]. apply in_entsl. exists nx. split; auto. apply nent_in. }
  apply in_entsl in He. destruct He as [r0 [Hr0 He]].
  assert (Hk : lt (nkey nx) (nkey r0) = false).
  { rewrite Forall_forall in Hh. pose proof (hord_min r0 (Hh r0 Hr0)) as Hm. rewrite Forall_forall in Hm.
    apply (Hm (nent nx) He). }
  pose proof (scan_min_root (sort_deg l3) nx r0 Hds Hdn (proj2 (In_sort_deg l3 r0) Hr0) Hk) as Hin.
  destruct (scan_min_spec (sort_deg l3) nx Hds Hdn) as [_ [B _]].
  exists (scan_min lt (sort_deg l3) nx). split; [apply (proj1 (In_sort_deg _ _)); auto|]. split; auto.
  apply roots_min; auto. intros r Hr. apply B. apply (proj2 (In_sort_deg _ _)). auto.
Qed.

Lemma extract_core h z u p' q' :
  minp h = Some z -> find_root z (roots h) = Some u ->
  splice (roots h) (nkids u) = p' ++ u :: q' ->
  Forall (fun r => nid r <> z) p' -> nid u = z -> Forall G (p' ++ q') ->
  exists h', extract_min lt h = XOk u h' /\ Permutation (entsl (roots h')) (entsl (p' ++ q')) /\
             Forall hord (roots h') /\ hn h' = hn h - 1 /\ min_ok h'.
Proof.
  intros Hm Hf Hs Hp Hu HG. unfold extract_min. rewrite Hm, Hf, Hs.
  destruct (p' ++ u :: q') as [|f l1'] eqn:El1; [destruct p'; discriminate|].
  rewrite <- El1.
  destruct (zip_ops z u q' f p' Hp Hu) as [_ [B C]]. rewrite B, C.
  destruct (p' ++ q') as [|x l2'] eqn:El2.
  - eexists. split; [reflexivity|]. simpl. repeat split; auto.
  - rewrite <- El2 in *.
    assert (Hnx : In (hd f q') (p' ++ q')).
    { destruct q' as [|y q'']; simpl.
      - rewrite app_nil_r in *. destruct p' as [|y p'']; [discriminate|]. simpl in El1.
        inversion El1; subst. left. reflexivity.
      - apply in_or_app. right. left. reflexivity. }
    destruct (consolidate_ok (p' ++ q') (hd f q')) as [l3 [H3 [P [Hh [r [Hr [Hid Hmin]]]]]]]; auto.
    { rewrite El2. discriminate. }
    rewrite H3. rewrite El2. rewrite <- El2.
    eexists. split; [reflexivity|]. simpl. repeat split; auto.
    unfold min_ok. simpl. exists r. rewrite Hid. auto.
Qed.

Lemma Forall_rev' {A} (P : A -> Prop) l : Forall P l -> Forall P (rev l).
Proof. intros H. apply Forall_forall. intros x Hx. apply in_rev in Hx. rewrite Forall_forall in H. auto. Qed.

Lemma extract_min_spec h z p u q :
  minp h = Some z -> roots h = p ++ u :: q -> nid u = z ->
  Forall (fun r => nid r <> z) p -> Forall (fun r => nid r <> z) (nkids u) ->
  Forall G (p ++ q ++ nkids u) ->
  exists h', extract_min lt h = XOk u h' /\ Permutation (entsl (roots h')) (entsl (p ++ q ++ nkids u)) /\
             Forall hord (roots h') /\ hn h' = hn h - 1 /\ min_ok h'.
Proof.
  intros Hm Hr Hu Hp Hk HG.
  assert (Hf : find_root z (roots h) = Some u) by (rewrite Hr; apply zip_ops; auto).
  fa. destruct HG as [Gp [Gq Gk]].
  destruct p as [|a0 a'].
  - destruct (extract_core h z u [] (rev (nkids u) ++ q)) as [h' [A [B C]]]; auto.
    { rewrite Hr. simpl. apply splice_cons. }
    { simpl. fa. split; auto. apply Forall_rev'; auto. }
    exists h'. split; auto. split; auto. rewrite B. simpl. ex. rewrite entsl_rev. perm.
  - destruct (extract_core h z u (a0 :: rev (nkids u) ++ a') q) as [h' [A [B C]]]; auto.
    { rewrite Hr. simpl. rewrite splice_cons. rewrite <- app_assoc. reflexivity. }
    { inversion Hp; subst. constructor; auto. fa. split; auto. apply Forall_rev'; auto. }
    { inversion Gp; subst. simpl. constructor; auto. fa. repeat split; auto. apply Forall_rev'; auto. }
    exists h'. split; auto. split; auto. rewrite B. simpl. ex. rewrite entsl_rev. perm.
Qed.

(* ---- locating nodes by id ---- *)
Lemma first_some_map_some {A B} (f : A -> option B) : forall l n,
  first_some (map f l) = Some n -> exists c, In c l /\ f c = Some n.
Proof.
  induction l as [|c l IH]; simpl; intros n H; [discriminate|].
  destruct (f c) eqn:E.
  - inversion H; subst. exists c. auto.
  - apply IH in H. destruct H as [c' [? ?]]. exists c'. auto.
Qed.

Lemma first_some_map_none {A B} (f : A -> option B) : forall l,
  first_some (map f l) = None -> forall c, In c l -> f c = None.
Proof.
  induction l as [|c l IH]; simpl; intros H c' Hc; [tauto|].
  destruct (f c) eqn:E; [discriminate|]. destruct Hc as [<-|Hc]; auto.
Qed.

Lemma find_node_some i : forall t n, find_node i t = Some n -> In (nent n) (ents t) /\ nid n = i.
Proof.
  induction t as [j k m d ks IH] using hnode_ind'. intros n H. simpl in H.
  destruct (Z.eqb j i) eqn:E.
  - inversion H; subst. apply Z.eqb_eq in E. split; [left; reflexivity|auto].
  - apply first_some_map_some in H. destruct H as [c [Hc H]].
    rewrite Forall_forall in IH. destruct (IH c Hc n H) as [A B]. split; auto.
    simpl. right. apply in_flat_map. exists c. auto.
Qed.

Lemma find_node_none i : forall t, find_node i t = None -> Forall (fun e => eid e <> i) (ents t).
Proof.
  induction t as [j k m d ks IH] using hnode_ind'. intros H. simpl in H.
  destruct (Z.eqb j i) eqn:E; [discriminate|]. apply Z.eqb_neq in E. simpl.
  constructor; [exact E|]. apply Forall_flat_map. rewrite Forall_forall in *. intros c Hc.
  apply IH; auto. eapply first_some_map_none in H; eauto.
Qed.

Lemma find_forest_some i l n : find_forest i l = Some n -> In (nent n) (entsl l) /\ nid n = i.
Proof.
  unfold find_forest. intros H. apply first_some_map_some in H. destruct H as [c [Hc H]].
  apply find_node_some in H. destruct H. split; auto. apply in_entsl. exists c. auto.
Qed.

Lemma find_forest_none i l : find_forest i l = None -> Forall (fun e => eid e <> i) (entsl l).
Proof.
  unfold find_forest. intros H. apply Forall_flat_map. apply Forall_forall. intros c Hc.
  apply find_node_none. eapply first_some_map_none in H; eauto.
Qed.

Lemma find_forest_in i l e : In e (entsl l) -> eid e = i -> exists n, find_forest i l = Some n.
Proof.
  intros He Hi. destruct (find_forest i l) eqn:E; [eauto|].
  apply find_forest_none in E. rewrite Forall_forall in E. exfalso. apply (E e He Hi).
Qed.

Lemma nodup_ent (E : list ent) e e' : NoDup (map eid E) -> In e E -> In e' E -> eid e = eid e' -> e = e'.
Proof.
  induction E as [|a E IH]; simpl; intros Hn He He' Hid; [tauto|].
  inversion Hn as [|? ? Hna Hn']; subst.
  destruct He as [->|He], He' as [->|He']; auto.
  - exfalso. apply Hna. rewrite Hid. apply in_map. auto.
  - exfalso. apply Hna. rewrite <- Hid. apply in_map. auto.
Qed.

(* ---- the invariant ---- *)
Record Inv (h : heap) (next : Z) : Prop := {
  inv_nodup : NoDup (map eid (entsl (roots h)));
  inv_hord : Forall hord (roots h);
  inv_n : hn h = Z.of_nat (length (entsl (roots h)));
  inv_min : min_ok h;
  inv_clean : Forall (fun e => edel e = false) (entsl (roots h));
  inv_ids : Forall (fun e => 0 <= eid e < next) (entsl (roots h));
  inv_next : 0 <= next }.

(* the abstract value: the multiset of live (key, item id) *)
Definition abs (h : heap) : list (Z * Z) := map fst (entsl (roots h)).

Lemma root_ent r l : In r l -> In (nent r) (entsl l).
Proof. intros H. apply in_entsl. exists r. split; auto. apply nent_in. Qed.

Lemma clean_G l : Forall hord l -> Forall (fun e => edel e = false) (entsl l) -> Forall G l.
Proof.
  intros Hh Hc. rewrite Forall_forall in *. intros r Hr. split; auto.
  apply (Hc (nent r)). apply root_ent; auto.
Qed.

(* under Inv, looking _min up by id gives (a copy of) the minimal root *)
Lemma min_lookup h next m : Inv h next -> minp h = Some m ->
  exists mn r, find_forest m (roots h) = Some mn /\ In r (roots h) /\ nid r = m /\ nkey mn = nkey r /\
               ndel mn = false /\ ndel r = false /\
               Forall (fun e => lt (ekey e) (nkey r) = false) (entsl (roots h)).
Proof.
  intros I Hm. pose proof (inv_min _ _ I) as Hmin. unfold min_ok in Hmin. rewrite Hm in Hmin.
  destruct Hmin as [r [Hr [Hid Hall]]].
  destruct (find_forest_in m (roots h) (nent r) (root_ent _ _ Hr) Hid) as [n Hn].
  destruct (find_forest_some _ _ _ Hn) as [A B].
  assert (E : nent n = nent r).
  { eapply nodup_ent; [apply (inv_nodup _ _ I)|auto|apply root_ent; auto|]. unfold eid, nent. simpl. congruence. }
  pose proof (inv_clean _ _ I) as Hc. rewrite Forall_forall in Hc. specialize (Hc _ A).
  unfold nent in E. inversion E as [[E1 E2 E3]].
  exists n, r. unfold edel in Hc. simpl in Hc. repeat split; auto. congruence.
Qed.

Lemma Inv_intro h next E : Permutation (entsl (roots h)) E -> NoDup (map eid E) -> Forall hord (roots h) ->
  hn h = Z.of_nat (length E) -> min_ok h -> Forall (fun e => edel e = false) E ->
  Forall (fun e => 0 <= eid e < next) E -> 0 <= next -> Inv h next.
Proof.
  intros P Hn Hh Hl Hm Hc Hi Hnx. constructor; auto.
  - eapply Permutation_NoDup; [|apply Hn]. apply Permutation_map. symmetry. auto.
  - rewrite Hl. f_equal. apply Permutation_length. symmetry. auto.
  - eapply Permutation_Forall; [symmetry; apply P|auto].
  - eapply Permutation_Forall; [symmetry; apply P|auto].
Qed.

Lemma In_ring_add_iff x l y : In y (ring_add x l) <-> y = x \/ In y l.
Proof. destruct l; simpl; intuition. Qed.

Lemma Inv_empty next : 0 <= next -> Inv empty next.
Proof. intros. constructor; simpl; auto; try constructor. Qed.

(* ---- push ---- *)
Lemma push_spec h next k : Inv h next ->
  exists h', push lt next k h = (h', RItem next k, false) /\ Inv h' (next + 1) /\
             Permutation (abs h') ((k, next) :: abs h).
Proof.
  intros I. unfold push.
  set (node := HNode next k false false []).
  assert (P : Permutation (entsl (ring_add node (roots h))) ((k, next, false) :: entsl (roots h))).
  { rewrite entsl_ring_add. reflexivity. }
  assert (Hfresh : ~ In next (map eid (entsl (roots h)))).
  { intros Hin. apply in_map_iff in Hin. destruct Hin as [e [He1 He2]].
    pose proof (inv_ids _ _ I) as Hi. rewrite Forall_forall in Hi. specialize (Hi e He2). lia. }
  assert (Hh : Forall hord (ring_add node (roots h))).
  { apply (@In_ring_add unit); [constructor; constructor|apply (inv_hord _ _ I)]. }
  pose proof (inv_next _ _ I) as Hnx.
  assert (Hids : Forall (fun e => 0 <= eid e < next + 1) ((k, next, false) :: entsl (roots h))).
  { pose proof (inv_ids _ _ I) as Hi. rewrite Forall_forall in Hi.
    constructor; [unfold eid; simpl; lia|].
    apply Forall_forall. intros e He. specialize (Hi e He). lia. }
  assert (Hcl : Forall (fun e => edel e = false) ((k, next, false) :: entsl (roots h))).
  { constructor; [reflexivity|apply (inv_clean _ _ I)]. }
  assert (Hnd : NoDup (map eid ((k, next, false) :: entsl (roots h)))).
  { simpl. constructor; [exact Hfresh|apply (inv_nodup _ _ I)]. }
  assert (Hlen : hn h + 1 = Z.of_nat (length ((k, next, false) :: entsl (roots h)))).
  { rewrite (inv_n _ _ I). cbn [length]. lia. }
  assert (Habs : forall h', roots h' = ring_add node (roots h) -> Permutation (abs h') ((k, next) :: abs h)).
  { intros h' Hr. unfold abs. rewrite Hr. rewrite P. reflexivity. }
  destruct (minp h) as [m|] eqn:Hm.
  - destruct (min_lookup h next m I Hm) as [mn [r [Hf [Hr [Hid [Hk [Hd [Hdr Hall]]]]]]]].
    rewrite Hf. eexists. split; [reflexivity|]. split; [|apply Habs; reflexivity].
    eapply Inv_intro; simpl; eauto; try lia.
    unfold min_ok. simpl. unfold node_lt. simpl. rewrite Hk.
    destruct (lt k (nkey r)) eqn:L.
    + exists node. split; [apply In_ring_add_iff; auto|]. split; [reflexivity|].
      eapply Permutation_Forall; [symmetry; apply P|]. simpl.
      constructor; [apply lt_irrefl|].
      eapply Forall_impl; [|apply Hall]. intros e He. simpl in He.
      eapply lt_negtrans; [apply He|]. apply lt_asym. auto.
    + exists r. split; [apply In_ring_add_iff; auto|]. split; [auto|].
      eapply Permutation_Forall; [symmetry; apply P|]. constructor; auto.
  - eexists. split; [reflexivity|]. split; [|apply Habs; reflexivity].
    eapply Inv_intro; simpl; eauto; try lia.
    unfold min_ok. simpl. exists node. split; [apply In_ring_add_iff; auto|]. split; [reflexivity|].
    pose proof (inv_min _ _ I) as Hmin. unfold min_ok in Hmin. rewrite Hm in Hmin. rewrite Hmin.
    simpl. constructor; [apply lt_irrefl|constructor].
Qed.

(* ---- _extract_min at the level of the invariant (the root u may carry the deleted flag: remove) ---- *)
Lemma roots_ne_id z l (E : list ent) : ~ In z (map eid E) -> (forall r, In r l -> In (nent r) E) ->
  Forall (fun r => nid r <> z) l.
Proof.
  intros Hn Hsub. apply Forall_forall. intros r Hr Heq. apply Hn.
  apply in_map_iff. exists (nent r). split; auto.
Qed.

Lemma extract_inv h next z u p q :
  minp h = Some z -> roots h = p ++ u :: q -> nid u = z ->
  NoDup (map eid (entsl (roots h))) -> Forall hord (roots h) ->
  hn h = Z.of_nat (length (entsl (roots h))) ->
  Forall (fun e => edel e = false) (entsl (p ++ q ++ nkids u)) ->
  Forall (fun e => 0 <= eid e < next) (entsl (roots h)) -> 0 <= next ->
  exists h', extract_min lt h = XOk u h' /\ Inv h' next /\
             Permutation (entsl (roots h)) (nent u :: entsl (roots h')).
Proof.
  intros Hm Hr Hu Hnd Hh Hn Hc Hi Hnx.
  assert (PE : Permutation (entsl (roots h)) (nent u :: entsl (p ++ q ++ nkids u))).
  { rewrite Hr. ex. rewrite (ents_unfold u). perm. }
  assert (Hnd' : NoDup (map eid (nent u :: entsl (p ++ q ++ nkids u)))).
  { eapply Permutation_NoDup; [apply Permutation_map; apply PE|auto]. }
  simpl in Hnd'. inversion Hnd' as [|? ? Hz Hnd'']; subst.
  change (eid (nent u)) with (nid u) in Hz.
  rewrite Hr in Hh. fa. destruct Hh as [Hp [Hhu Hq]]. destruct (hord_inv u Hhu) as [_ Hk].
  destruct (extract_min_spec h (nid u) p u q) as [h' [A [B [C [D E]]]]]; auto.
  - eapply roots_ne_id; [apply Hz|]. intros r Hin. apply root_ent. apply in_or_app. auto.
  - eapply roots_ne_id; [apply Hz|]. intros r Hin. apply root_ent. apply in_or_app. right. apply in_or_app. auto.
  - apply clean_G; auto. fa. auto.
  - exists h'. split; auto. split; [|rewrite PE, B; reflexivity].
    eapply Inv_intro; eauto.
    + rewrite D, Hn. rewrite (Permutation_length PE). cbn [length]. lia.
    + assert (Hi' := Permutation_Forall PE Hi). inversion Hi'; auto.
Qed.

Lemma find_root_in r : forall l, In r l -> exists u, find_root (nid r) l = Some u.
Proof.
  induction l as [|a l IH]; simpl; intros H; [tauto|].
  destruct (Z.eqb (nid a) (nid r)) eqn:E; [eauto|].
  destruct H as [->|H]; auto. rewrite Z.eqb_refl in E. discriminate.
Qed.

Lemma drop_deleted_inv h next f : Inv h next -> drop_deleted lt (S f) h = (h, false).
Proof.
  intros I. simpl. destruct (minp h) as [m|] eqn:Hm; auto.
  destruct (min_lookup h next m I Hm) as [mn [r [Hf [_ [_ [_ [Hd _]]]]]]]. rewrite Hf, Hd. reflexivity.
Qed.

Lemma abs_min h k : Forall (fun e => lt (ekey e) k = false) (entsl (roots h)) ->
  forall y, In y (abs h) -> lt (fst y) k = false.
Proof.
  intros H y Hy. unfold abs in Hy. apply in_map_iff in Hy. destruct Hy as [e [<- He]].
  rewrite Forall_forall in H. apply (H e He).
Qed.

(* ---- peek ---- *)
Lemma peek_spec h next : Inv h next ->
  (roots h = [] /\ peek lt h = (h, RExc AttributeError, false)) \/
  (exists m k, peek lt h = (h, RItem m k, false) /\ In (k, m) (abs h) /\
               forall y, In y (abs h) -> lt (fst y) k = false).
Proof.
  intros I. unfold peek. rewrite (drop_deleted_inv h next _ I).
  destruct (minp h) as [m|] eqn:Hm.
  - right. destruct (min_lookup h next m I Hm) as [mn [r [Hf [Hr [Hid [Hk [Hd [_ Hall]]]]]]]].
    rewrite Hf. exists m, (nkey mn). split; auto. split.
    + unfold abs. apply in_map_iff. exists (nent r). split; [unfold nent; simpl; congruence|].
      apply root_ent; auto.
    + apply abs_min. rewrite Hk. auto.
  - left. pose proof (inv_min _ _ I) as Hmin. unfold min_ok in Hmin. rewrite Hm in Hmin. auto.
Qed.

(* ---- pop ---- *)
Lemma pop_spec h next : Inv h next ->
  (roots h = [] /\ pop lt h = (h, RExc AttributeError, false)) \/
  (exists h' m k, pop lt h = (h', RItem m k, false) /\ Inv h' next /\
                  Permutation (abs h) ((k, m) :: abs h') /\
                  forall y, In y (abs h) -> lt (fst y) k = false).
Proof.
  intros I. unfold pop. rewrite (drop_deleted_inv h next _ I).
  destruct (minp h) as [m|] eqn:Hm.
  - right. destruct (min_lookup h next m I Hm) as [mn [r [Hf [Hr [Hid [Hk [Hd [Hdr Hall]]]]]]]].
    destruct (find_root_in r _ Hr) as [u Hu]. rewrite Hid in Hu.
    destruct (find_root_split _ _ _ Hu) as [p [q [Hroots [Hp Hidu]]]].
    assert (Eu : nent u = nent r).
    { eapply nodup_ent; [apply (inv_nodup _ _ I)| | |].
      - rewrite Hroots. apply root_ent. apply in_or_app. right. left. reflexivity.
      - apply root_ent; auto.
      - unfold eid, nent. simpl. congruence. }
    unfold nent in Eu. inversion Eu as [[Ek Ei Ed]].
    destruct (extract_inv h next m u p q) as [h' [A [B C]]]; auto;
      try apply (inv_nodup _ _ I); try apply (inv_hord _ _ I); try apply (inv_n _ _ I);
      try apply (inv_ids _ _ I); try apply (inv_next _ _ I).
    + pose proof (inv_clean _ _ I) as Hc. rewrite Hroots in Hc. revert Hc. ex. rewrite (ents_unfold u).
      intros Hc. fa. tauto.
    + rewrite A. exists h', (nid u), (nkey u). split; auto. split; auto. split.
      * unfold abs. rewrite C. reflexivity.
      * apply abs_min. rewrite Ek. auto.
  - left. pose proof (inv_min _ _ I) as Hmin. unfold min_ok in Hmin. rewrite Hm in Hmin.
    split; auto. unfold extract_min. rewrite Hm. reflexivity.
Qed.

(* ---- _cut / _cascading_cut ---- *)
Section CutProofs.
Variable x : Z.       (* the node that was modified *)
Variable k' : Z.      (* its key afterwards *)
Variable d' : bool.   (* its deleted flag afterwards *)
Let upd := set_kd k' d'.

(* the recursion over the child ring, as a top-level function *)
Fixpoint cut_kids (t : hnode) (ks : list hnode) : kres :=
  match ks with
  | [] => KNot
  | c :: r =>
      if Z.eqb (nid c) x then
        let c' := upd c in
        if node_lt lt c' t then KCasc r [set_mark false c'] else KDone (c' :: r) []
      else
        match cut_node lt x upd c with
        | CNot => match cut_kids t r with
                  | KNot => KNot
                  | KDone r' cu => KDone (c :: r') cu
                  | KCasc r' cu => KCasc (c :: r') cu end
        | CDone c' cu => KDone (c' :: r) cu
        | CCasc c' cu => if nmark c' then KCasc r (cu ++ [set_mark false c'])
                         else KDone (set_mark true c' :: r) cu
        end
  end.

Lemma cut_node_eq i k m d ks :
  cut_node lt x upd (HNode i k m d ks) =
  match cut_kids (HNode i k m d ks) ks with
  | KNot => CNot
  | KDone ks' cu => CDone (HNode i k m d ks') cu
  | KCasc ks' cu => CCasc (HNode i k m d ks') cu end.
Proof.
  simpl.
  match goal with |- match ?F ks with _ => _ end = _ =>
    assert (E : forall l, F l = cut_kids (HNode i k m d ks) l) end.
  { induction l as [|c r IH]; [reflexivity|]. simpl. rewrite IH. reflexivity. }
  rewrite E. reflexivity.
Qed.

(* x' < the node with entry e, as HeapNode.__lt__ computes it *)
Definition nlt (e : ent) : bool := (d' && negb (edel e)) || lt k' (ekey e).

Lemma node_lt_nlt c t : node_lt lt (upd c) t = nlt (nent t).
Proof. destruct c, t. reflexivity. Qed.

Definition cut_post (casc : bool) (before after : list ent) (cu : list hnode) (extra : list ent) : Prop :=
  exists kx dx E,
    Permutation before ((kx, x, dx) :: E) /\
    Permutation (after ++ entsl cu) ((k', x, d') :: E) /\
    Forall hord cu /\
    ((casc = false /\ cu = [] /\ exists e, In e (extra ++ E) /\ nlt e = false) \/
     (exists x' rest, cu = x' :: rest /\ nent x' = (k', x, d'))).

Definition node_spec (t : hnode) : Prop :=
  match cut_node lt x upd t with
  | CNot => Forall (fun e => eid e <> x) (entsl (nkids t))
  | CDone t' cu => cut_post false (ents t) (ents t') cu [] /\ hord t' /\ nent t' = nent t
  | CCasc t' cu => cut_post true (ents t) (ents t') cu [] /\ hord t' /\ nent t' = nent t
  end.

Definition kids_post (casc : bool) (t : hnode) (ks ks' cu : list hnode) : Prop :=
  cut_post casc (entsl ks) (entsl ks') cu [nent t] /\
  Forall (fun c => lt (nkey c) (nkey t) = false) ks' /\ Forall hord ks'.

Definition kids_spec (t : hnode) (ks : list hnode) : Prop :=
  match cut_kids t ks with
  | KNot => Forall (fun e => eid e <> x) (entsl ks)
  | KDone ks' cu => kids_post false t ks ks' cu
  | KCasc ks' cu => kids_post true t ks ks' cu
  end.

Lemma cut_post_weaken before after cu extra :
  cut_post true before after cu extra -> cut_post false before after cu extra.
Proof.
  intros [kx [dx [E [P1 [P2 [Hh [[C _]|R]]]]]]]; [discriminate|].
  exists kx, dx, E. auto.
Qed.

Lemma cut_post_frame casc before after cu extra F before' after' extra' :
  cut_post casc before after cu extra ->
  Permutation before' (before ++ F) -> Permutation after' (after ++ F) ->
  (forall e, In e extra -> In e extra' \/ In e F) ->
  cut_post casc before' after' cu extra'.
Proof.
  intros [kx [dx [E [P1 [P2 [Hh D]]]]]] Hb Ha Hex.
  exists kx, dx, (E ++ F). split; [rewrite Hb, P1; reflexivity|]. split.
  - rewrite Ha. transitivity ((after ++ entsl cu) ++ F); [perm|rewrite P2; reflexivity].
  - split; auto. destruct D as [[C [Hc [e [He Hn]]]]|R]; [left|right; auto].
    split; auto. split; auto. exists e. split; auto.
    apply in_app_or in He. destruct He as [He|He].
    + destruct (Hex e He); apply in_or_app; auto. right. apply in_or_app. auto.
    + apply in_or_app. right. apply in_or_app. auto.
Qed.

(* the child c' that lost a child was marked: it is cut as well and the cascade goes on *)
Lemma cut_post_casc before c' cu F before' extra' :
  cut_post true before (ents c') cu [] -> hord c' ->
  Permutation before' (before ++ F) ->
  cut_post true before' F (cu ++ [set_mark false c']) extra'.
Proof.
  intros [kx [dx [E [P1 [P2 [Hh D]]]]]] Hc Hb.
  exists kx, dx, (E ++ F). split; [rewrite Hb, P1; reflexivity|]. split.
  - ex. rewrite ents_set_mark. simpl. rewrite app_nil_r.
    transitivity ((ents c' ++ entsl cu) ++ F); [perm|rewrite P2; reflexivity].
  - split; [apply Forall_app; split; auto; constructor; auto; apply hord_set_mark; auto|].
    right. destruct D as [[C _]|[x' [rest [-> Hx']]]]; [discriminate|].
    exists x', (rest ++ [set_mark false c']). auto.
Qed.

(* every entry with id x has a key that is not below the new key (the key only decreases) *)
Definition hx (e : ent) : Prop := eid e = x -> lt (ekey e) k' = false.

Lemma ents_upd c : ents (upd c) = (k', nid c, d') :: entsl (nkids c).
Proof. destruct c; reflexivity. Qed.

Lemma hord_upd c : hord c -> hx (nent c) -> nid c = x -> hord (upd c).
Proof.
  intros Hc Hx Hi. destruct c as [i kc m dc kks]. destruct (hord_inv _ Hc) as [A B]. simpl in *.
  unfold upd, set_kd. simpl. constructor; auto.
  eapply Forall_impl; [|apply A]. intros kid Hk. simpl in Hk.
  eapply lt_negtrans; [apply Hk|]. apply (Hx Hi).
Qed.

Lemma kids_ok t : forall ks,
  Forall (fun c => hord c -> Forall hx (ents c) -> node_spec c) ks ->
  Forall (fun c => lt (nkey c) (nkey t) = false) ks -> Forall hord ks -> Forall hx (entsl ks) ->
  kids_spec t ks.
Proof.
  induction ks as [|c r IHr]; intros HI Hk Hh Hx; unfold kids_spec; cbn [cut_kids].
  - constructor.
  - inversion HI as [|? ? HIc HIr]; subst. inversion Hk as [|? ? Hkc Hkr]; subst.
    inversion Hh as [|? ? Hhc Hhr]; subst. rewrite entsl_cons in Hx. apply Forall_app in Hx.
    destruct Hx as [Hxc Hxr]. specialize (IHr HIr Hkr Hhr Hxr).
    destruct (Z.eqb (nid c) x) eqn:Ec.
    + apply Z.eqb_eq in Ec. cbv zeta. rewrite node_lt_nlt.
      assert (Hxn : hx (nent c)) by (rewrite ents_unfold in Hxc; inversion Hxc; auto).
      assert (Hu : hord (upd c)) by (apply hord_upd; auto).
      assert (P1 : Permutation (entsl (c :: r)) ((nkey c, x, ndel c) :: entsl (nkids c) ++ entsl r)).
      { ex. rewrite (ents_unfold c). unfold nent. rewrite Ec. reflexivity. }
      destruct (nlt (nent t)) eqn:N.
      * split; [|split; auto].
        exists (nkey c), (ndel c), (entsl (nkids c) ++ entsl r). split; auto. split.
        { ex. rewrite ents_set_mark, ents_upd, Ec. simpl. perm. }
        split; [constructor; auto; apply hord_set_mark; auto|].
        right. exists (set_mark false (upd c)), []. split; auto.
        destruct c; simpl in *. rewrite Ec. reflexivity.
      * split; [|split].
        { exists (nkey c), (ndel c), (entsl (nkids c) ++ entsl r). split; auto. split.
          { ex. rewrite ents_upd, Ec. simpl. perm. }
          split; [constructor|]. left. split; auto. split; auto.
          exists (nent t). split; [left; reflexivity|auto]. }
        { constructor; auto. unfold nlt in N. apply orb_false_iff in N. destruct N as [_ N].
          destruct c; simpl. exact N. }
        { constructor; auto. }
    + specialize (HIc Hhc Hxc). unfold node_spec in HIc.
      destruct (cut_node lt x upd c) as [|c' cu|c' cu].
      * (* not below c *)
        assert (Hnc : Forall (fun e => eid e <> x) (ents c)).
        { rewrite ents_unfold. constructor; auto. apply Z.eqb_neq in Ec. exact Ec. }
        unfold kids_spec in IHr. destruct (cut_kids t r) as [|r' cu|r' cu].
        { rewrite entsl_cons. apply Forall_app. auto. }
        { destruct IHr as [A [B C]]. split; [|split; auto].
          eapply cut_post_frame; [apply A| | |]; [ex; apply Permutation_app_comm|ex; apply Permutation_app_comm|auto]. }
        { destruct IHr as [A [B C]]. split; [|split; auto].
          eapply cut_post_frame; [apply A| | |]; [ex; apply Permutation_app_comm|ex; apply Permutation_app_comm|auto]. }
      * destruct HIc as [A [B C]]. inversion C as [[Ck Ci Cd]]. split; [|split].
        { eapply cut_post_frame; [apply A| | |]; [ex; reflexivity|ex; reflexivity|intros ? []]. }
        { constructor; auto. rewrite Ck. auto. }
        { constructor; auto. }
      * destruct HIc as [A [B C]]. inversion C as [[Ck Ci Cd]]. destruct (nmark c').
        { split; [|split; auto]. eapply cut_post_casc; [apply A|auto|ex; reflexivity]. }
        { split; [|split].
          - apply cut_post_weaken.
            eapply cut_post_frame; [apply A| | |]; [ex; reflexivity|ex; rewrite ents_set_mark; reflexivity|intros ? []].
          - constructor; auto. rewrite nkey_set_mark, Ck. auto.
          - constructor; auto. apply hord_set_mark; auto. }
Qed.

Lemma node_ok : forall t, hord t -> Forall hx (ents t) -> node_spec t.
Proof.
  induction t as [i k m d ks IH] using hnode_ind'. intros Hh Hx.
  destruct (hord_inv _ Hh) as [Hk Hhk]. simpl in Hk, Hhk.
  assert (Hxk : Forall hx (entsl ks)) by (simpl in Hx; inversion Hx; auto).
  pose proof (kids_ok (HNode i k m d ks) ks IH Hk Hhk Hxk) as K.
  unfold node_spec. rewrite cut_node_eq. unfold kids_spec in K.
  destruct (cut_kids (HNode i k m d ks) ks) as [|ks' cu|ks' cu].
  - exact K.
  - destruct K as [A [B C]]. split; [|split; [constructor; auto|reflexivity]].
    eapply cut_post_frame; [apply A| | |].
    + simpl. change (flat_map ents ks) with (entsl ks). perm.
    + simpl. change (flat_map ents ks') with (entsl ks'). perm.
    + intros e [<-|[]]. right. left. reflexivity.
  - destruct K as [A [B C]]. split; [|split; [constructor; auto|reflexivity]].
    eapply cut_post_frame; [apply A| | |].
    + simpl. change (flat_map ents ks) with (entsl ks). perm.
    + simpl. change (flat_map ents ks') with (entsl ks'). perm.
    + intros e [<-|[]]. right. left. reflexivity.
Qed.

Definition roots_post (rs rs' cu : list hnode) : Prop :=
  exists kx dx E,
    Permutation (entsl rs) ((kx, x, dx) :: E) /\
    Permutation (entsl rs' ++ entsl cu) ((k', x, d') :: E) /\
    Forall hord rs' /\ Forall hord cu /\ map nid rs' = map nid rs /\
    ((exists x', In x' (rs' ++ cu) /\ nent x' = (k', x, d')) \/ (exists e, In e E /\ nlt e = false)).

Lemma cut_post_roots casc r r' cu rest :
  cut_post casc (ents r) (ents r') cu [] -> hord r' -> nent r' = nent r -> Forall hord rest ->
  roots_post (r :: rest) (r' :: rest) cu.
Proof.
  intros [kx [dx [E [P1 [P2 [Hh D]]]]]] Hr' Hn Hrest. inversion Hn as [[Hk Hi Hd]].
  exists kx, dx, (E ++ entsl rest). split; [ex; rewrite P1; reflexivity|]. split.
  - ex. transitivity ((ents r' ++ entsl cu) ++ entsl rest); [perm|rewrite P2; reflexivity].
  - split; [constructor; auto|]. split; auto. split; [simpl; congruence|].
    destruct D as [[_ [_ [e [He Hne]]]]|[x' [rest' [-> Hx']]]].
    + right. exists e. split; auto. apply in_or_app. auto.
    + left. exists x'. split; auto. apply in_or_app. right. left. reflexivity.
Qed.

Lemma cut_roots_ok : forall rs, Forall hord rs -> Forall hx (entsl rs) ->
  Exists (fun e => eid e = x) (entsl rs) ->
  exists rs' cu, cut_roots lt x upd rs = Some (rs', cu) /\ roots_post rs rs' cu.
Proof.
  induction rs as [|r rest IH]; intros Hh Hx Hex; [inversion Hex|].
  inversion Hh as [|? ? Hhr Hhrest]; subst. rewrite entsl_cons in Hx, Hex.
  apply Forall_app in Hx. destruct Hx as [Hxr Hxrest]. cbn [cut_roots].
  destruct (Z.eqb (nid r) x) eqn:Er.
  - apply Z.eqb_eq in Er. exists (upd r :: rest), []. split; auto.
    assert (Hxn : hx (nent r)) by (rewrite ents_unfold in Hxr; inversion Hxr; auto).
    exists (nkey r), (ndel r), (entsl (nkids r) ++ entsl rest).
    split; [ex; rewrite (ents_unfold r); unfold nent; rewrite Er; reflexivity|].
    split; [ex; rewrite ents_upd, Er; simpl; perm|].
    split; [constructor; auto; apply hord_upd; auto|]. split; [constructor|].
    split; [destruct r; reflexivity|].
    left. exists (upd r). split; [left; reflexivity|]. destruct r; simpl in *. rewrite Er. reflexivity.
  - pose proof (node_ok r Hhr Hxr) as N. unfold node_spec in N.
    destruct (cut_node lt x upd r) as [|r' cu|r' cu].
    + assert (Hnr : Forall (fun e => eid e <> x) (ents r)).
      { rewrite ents_unfold. constructor; auto. apply Z.eqb_neq in Er. exact Er. }
      apply Exists_app in Hex. destruct Hex as [Hex|Hex].
      { exfalso. apply Exists_exists in Hex. destruct Hex as [e [He1 He2]].
        rewrite Forall_forall in Hnr. apply (Hnr e He1 He2). }
      destruct (IH Hhrest Hxrest Hex) as [rest' [cu [Hc [kx [dx [E [P1 [P2 [A [B [C D]]]]]]]]]]].
      rewrite Hc. exists (r :: rest'), cu. split; auto.
      exists kx, dx, (ents r ++ E). split; [ex; rewrite P1; perm|]. split.
      { ex. transitivity (ents r ++ (entsl rest' ++ entsl cu)); [perm|rewrite P2; perm]. }
      split; [constructor; auto|]. split; auto. split; [simpl; congruence|].
      destruct D as [[x' [Hin Hx']]|[e [He Hn]]].
      * left. exists x'. split; auto. right. auto.
      * right. exists e. split; auto. apply in_or_app. auto.
    + destruct N as [A [B C]]. exists (r' :: rest), cu. split; auto. eapply cut_post_roots; eauto.
    + destruct N as [A [B C]]. exists (r' :: rest), cu. split; auto. eapply cut_post_roots; eauto.
Qed.

End CutProofs.
