(* Generic list facts used by the script proofs: insertion sort on nat, permutations of index ranges,
   filter partitions, mapi. *)
From Coq Require Import List Arith Bool Lia Permutation Sorted.
Require Import GT.ScriptSpec.
Import ListNotations.

Lemma nat_list_eqb_eq : forall a b, nat_list_eqb a b = true <-> a = b.
Proof.
  induction a as [|x a IH]; destruct b as [|y b]; cbn; split; intro H; try reflexivity; try discriminate.
  - apply andb_prop in H as [H1 H2]. apply Nat.eqb_eq in H1. apply IH in H2. congruence.
  - inversion H; subst. rewrite Nat.eqb_refl. apply IH. reflexivity.
Qed.

Lemma ins_nat_perm : forall x l, Permutation (x :: l) (ins_nat x l).
Proof.
  induction l as [|y l IH]; cbn; [reflexivity|].
  destruct (Nat.leb x y); [reflexivity|].
  rewrite perm_swap. apply perm_skip. exact IH.
Qed.

Lemma sort_nat_perm : forall l, Permutation l (sort_nat l).
Proof.
  induction l as [|x l IH]; cbn; [reflexivity|].
  rewrite <- ins_nat_perm. apply perm_skip. exact IH.
Qed.

Lemma ins_nat_sorted : forall x l, Sorted le l -> Sorted le (ins_nat x l).
Proof.
  induction l as [|y l IH]; cbn; intro H; [repeat constructor|].
  destruct (Nat.leb_spec x y) as [Hle|Hgt].
  - constructor; [exact H|]. constructor. exact Hle.
  - inversion H as [|? ? Hs Hh]; subst. constructor; [apply IH; exact Hs|].
    destruct l as [|z l]; cbn.
    + constructor. lia.
    + destruct (Nat.leb_spec x z); constructor; [lia|]. inversion Hh; subst. assumption.
Qed.

Lemma sort_nat_sorted : forall l, Sorted le (sort_nat l).
Proof. induction l as [|x l IH]; cbn; [constructor|]. apply ins_nat_sorted. exact IH. Qed.

Lemma seq_sorted : forall n s, Sorted le (seq s n).
Proof.
  induction n as [|n IH]; intro s; cbn; [constructor|].
  constructor; [apply IH|]. destruct n; cbn; constructor. lia.
Qed.

Lemma sorted_perm_eq : forall l l' : list nat, Sorted le l -> Sorted le l' -> Permutation l l' -> l = l'.
Proof.
  intros l l' Hl Hl' Hp.
  apply Sorted_StronglySorted in Hl; [|intros x y z; lia].
  apply Sorted_StronglySorted in Hl'; [|intros x y z; lia].
  revert l' Hl' Hp. induction Hl as [|x l Hs IH Hall]; intros l' Hl' Hp.
  - apply Permutation_nil in Hp. congruence.
  - destruct Hl' as [|y l' Hs' Hall'].
    + apply Permutation_sym, Permutation_nil in Hp. discriminate.
    + assert (x = y).
      { assert (In x (y :: l')) by (eapply Permutation_in; [exact Hp|left; reflexivity]).
        assert (In y (x :: l)) by (eapply Permutation_in; [apply Permutation_sym; exact Hp|left; reflexivity]).
        rewrite Forall_forall in Hall, Hall'.
        destruct H as [->|Hx]; [reflexivity|]. destruct H0 as [->|Hy]; [reflexivity|].
        specialize (Hall _ Hy). specialize (Hall' _ Hx). lia. }
      subst y. f_equal. apply IH; [exact Hs'|]. eapply Permutation_cons_inv. exact Hp.
Qed.

Lemma sort_nat_of_perm_seq : forall l n, Permutation l (seq 0 n) -> sort_nat l = seq 0 n.
Proof.
  intros l n Hp. apply sorted_perm_eq; [apply sort_nat_sorted|apply seq_sorted|].
  rewrite <- sort_nat_perm. exact Hp.
Qed.

Lemma filter_partition_perm : forall {A} (f : A -> bool) (l : list A),
  Permutation (filter f l ++ filter (fun x => negb (f x)) l) l.
Proof.
  induction l as [|x l IH]; cbn; [reflexivity|].
  destruct (f x); cbn.
  - apply perm_skip. exact IH.
  - rewrite <- Permutation_middle. apply perm_skip. exact IH.
Qed.

Lemma existsb_nat_in : forall x l, existsb (Nat.eqb x) l = true <-> In x l.
Proof.
  intros x l. rewrite existsb_exists. split.
  - intros [y [Hy He]]. apply Nat.eqb_eq in He. subst. exact Hy.
  - intro H. exists x. split; [exact H|apply Nat.eqb_refl].
Qed.

Lemma nth_error_seq : forall n s i, i < n -> nth_error (seq s n) i = Some (s + i).
Proof.
  induction n as [|n IH]; intros s i Hi; [lia|].
  destruct i as [|i]; cbn; [f_equal; lia|]. rewrite IH by lia. f_equal. lia.
Qed.

Lemma Forall_nth_error : forall {A} (P : A -> Prop) l i x, Forall P l -> nth_error l i = Some x -> P x.
Proof. intros A P l i x H Hn. rewrite Forall_forall in H. apply H. eapply nth_error_In. exact Hn. Qed.

Lemma Forall2_in_r : forall {A B} (R : A -> B -> Prop) l r y, Forall2 R l r -> In y r -> exists x, In x l /\ R x y.
Proof.
  intros A B R l r y H. induction H as [|x y' l r Hxy _ IH]; intro Hin; [destruct Hin|].
  destruct Hin as [<-|Hin]; [exists x; split; [left; reflexivity|exact Hxy]|].
  destruct (IH Hin) as [x' [Hx' Hr]]. exists x'. split; [right; exact Hx'|exact Hr].
Qed.

Lemma Forall2_in_l : forall {A B} (R : A -> B -> Prop) l r x, Forall2 R l r -> In x l -> exists y, In y r /\ R x y.
Proof.
  intros A B R l r x H. induction H as [|x' y l r Hxy _ IH]; intro Hin; [destruct Hin|].
  destruct Hin as [<-|Hin]; [exists y; split; [left; reflexivity|exact Hxy]|].
  destruct (IH Hin) as [y' [Hy' Hr]]. exists y'. split; [right; exact Hy'|exact Hr].
Qed.

Lemma Forall2_nth_error : forall {A B} (R : A -> B -> Prop) l r i x,
  Forall2 R l r -> nth_error l i = Some x -> exists y, nth_error r i = Some y /\ R x y.
Proof.
  intros A B R l r i x H. revert i. induction H as [|x' y l r Hxy _ IH]; intros i Hn; [destruct i; discriminate|].
  destruct i as [|i]; cbn in *; [inversion Hn; subst; exists y; auto|]. apply IH. exact Hn.
Qed.

Lemma Forall2_length' : forall {A B} (R : A -> B -> Prop) l r, Forall2 R l r -> length l = length r.
Proof. intros A B R l r H. induction H; cbn; congruence. Qed.
