(* C13 - any input type can be rendered in any output format and mode.
   Hand-written and independent of the translated code: the vocabulary of the tables the generator
   (translator/gen_dispatch.py) emits, the data of one run of the configuration product (the configuration,
   the classes found in the two loaded trees, the dispatch events recorded from outside, and what main() did),
   and the executable statement of the property on an observed outcome (holds_C13). *)
From Coq Require Import String Ascii List Bool ZArith.
Require Import GT.PyBase.
Import ListNotations.
Open Scope string_scope.

(* ---- summaries of print methods (extracted from the sources by ast) ---- *)
Inductive wrapkind := WNone      (* builds no temporary container around the item's sub-nodes *)
                    | WCopy      (* wraps copies of them *)
                    | WNoCopy.   (* wraps the live sub-nodes: the single-assignment `parent` guard raises *)
Inductive target := TSelf | TParent | TGrandParent | TSub (k : nat).   (* which formatter is asked to print *)
Inductive what := WSame                (* the item itself (or its own edit) *)
                | WChild               (* one of its children / the edit of one of its children *)
                | WFresh (cls : string).   (* a freshly built node of this class holding the item's children *)
Inductive action :=
  | ACall (t : target) (w : what)                           (* t.print(printer, w) : the printing protocol *)
  | ARun (owner : option string) (name : string) (w : what).  (* super().name(...) [Some owner] / self.name(...) [None] *)
Record msum := { m_wrap : wrapkind; m_actions : list action }.

Record dtables := {
  t_fmt : list (string * (list string * bool * list (string * string)));
      (* formatter class -> (sub_format_types, is_partial, print attribute -> owner class) *)
  t_global : list string;                          (* formatter.FORMATTERS, in order *)
  t_default : list (string * string);              (* file type -> class of its default formatter *)
  t_mro : list (string * list string);             (* node / edit class -> names along its MRO *)
  t_methods : list ((string * string) * msum);     (* (owner, method) -> summary *)
  t_emit : list ((string * string * string) * list (string * bool));
      (* (owner, method, leaf class) -> scalar class of the value ("int", "bigint", "null", "str-astral", ...)
         -> did the method return normally on every sample of that scalar class *)
  t_grammar : list (string * (list string * list (string * list string)));
      (* input type -> (classes of the root, class -> classes of its children); the pseudo-class "#kinds" lists
         the scalar classes a leaf of that input type can carry, "#keykinds" those of a mapping key *)
  t_subedit : list string;     (* node classes whose edit prints its sub-edits through the same formatter *)
  t_context : list (string * string)   (* (root formatter, class) printed by print_parent_context in -d *)
}.

(* ---- one run of the product ---- *)
Inductive omode := MDiff | MEdits | MDigest.         (* full diff, -e, -d *)
Inductive ostyle := SPlain | SColor | SHtml.
(* --dict-strategy auto (default) / match / none (= -k, --no-key-edits): with `none` mappings are built as
   FixedKeyDictNode, otherwise as DictNode *)
Inductive dstrategy := DSAuto | DSMatch | DSNone.
(* list edits: default / -l (--no-list-edits) / -ll (--no-list-edits-when-same-length) *)
Inductive lflag := LDefault | LNoListEdits | LSameLength.

(* formatter instance = its class followed by the classes of its ancestors up to the root *)
Definition finst := list string.

Record event := {
  e_base : finst;                 (* formatter instance the lookup started from *)
  e_cls : string;                 (* class of the item *)
  e_mro : list string;            (* its MRO as observed *)
  e_is_edit : bool;               (* an Edit (true) or a TreeNode (false) *)
  e_haskids : bool;               (* TreeNode with at least one child *)
  e_kind : string;                (* scalar class of a leaf's value; "key:" + scalar class of the key of a key/value
                                     pair; "" for other containers and for edits *)
  e_res : option (finst * string * string)   (* resolved (instance, method, owner class of the method) *)
}.

Inductive outcome :=
  | Completed (status : Z)
  | Raised (cls : string) (msg : string) (in_render : bool).
      (* in_render: the traceback passes through GraphtageFormatter.print (else: loader / diff engine) *)

Record c13_case := {
  c_it : string; c_of : string; c_mode : omode; c_style : ostyle; c_join : bool; c_differ : bool;
  c_ds : dstrategy; c_lf : lflag;
  c_roots : list string;               (* classes of the two loaded roots *)
  c_pairs : list (string * string);    (* (class, class of one of its children) over both loaded trees *)
  c_kinds : list string;               (* scalar classes of the leaves of both loaded trees *)
  c_events : list event;               (* distinct dispatch events, in order of first occurrence *)
  c_out : outcome
}.

(* the property on an observed outcome: main() returned, with one of its two normal statuses *)
Definition holds_C13 (c : c13_case) : bool :=
  match c_out c with
  | Completed s => Z.eqb s 0 || Z.eqb s 1
  | Raised _ _ _ => false
  end.

(* ---- strings ---- *)
Fixpoint starts_with (p s : string) : bool :=
  match p, s with
  | EmptyString, _ => true
  | String a p', String b s' => Ascii.eqb a b && starts_with p' s'
  | String _ _, EmptyString => false
  end.
Fixpoint contains (sub s : string) : bool :=
  starts_with sub s || match s with EmptyString => false | String _ s' => contains sub s' end.
Fixpoint drop (n : nat) (s : string) : string :=
  match n, s with O, _ => s | S k, String _ r => drop k r | S _, EmptyString => EmptyString end.

Definition mem (x : string) (l : list string) : bool := existsb (String.eqb x) l.
Fixpoint slist_eqb (a b : list string) : bool :=
  match a, b with
  | [], [] => true
  | x :: a', y :: b' => String.eqb x y && slist_eqb a' b'
  | _, _ => false
  end.
