(* C15: executable model of graphtage/matching.py `min_weight_bipartite_matching` (lines 469-562), step by
   step, on top of the TRANSLATED `get_dtype` / `INTEGER_DTYPE_INTERVALS` (GTgen.MatchGen).
   Definitions only.  `solve` stands for scipy.optimize.linear_sum_assignment (an oracle). *)
From Coq Require Import String List Bool ZArith Lia.
Require Import GT.PyBase GT.MatchSpec GTgen.MatchGen.
Import ListNotations.
Open Scope Z_scope.

(* ---- lines 505-524: the scan over itertools.product(enumerate(from_nodes), enumerate(to_nodes)) *)
Record scan_st := { s_ty : option ety; s_max : option Z; s_min : option Z; s_null : bool }.
Definition scan_init : scan_st := {| s_ty := None; s_max := None; s_min := None; s_null := false |}.

(* None = `raise ValueError` (edge_type is not type(edge)) *)
Definition scan_cell (st : scan_st) (c : option weight) : option scan_st :=
  match c with
  | Some w =>
      match (match s_ty st with
             | None => Some (wty w)                                       (* edge_type = type(edge) *)
             | Some t => if ety_eqb t (wty w) then Some t else None
             end) with
      | None => None
      | Some t =>
          Some {| s_ty := Some t;
                  s_max := Some (match s_max st with
                                 | None => wnum w
                                 | Some m => if m <? wnum w then wnum w else m     (* max_edge < edge *)
                                 end);
                  s_min := Some (match s_min st with
                                 | None => wnum w
                                 | Some m => if m >? wnum w then wnum w else m     (* min_edge > edge *)
                                 end);
                  s_null := s_null st |}
      end
  | None => Some {| s_ty := s_ty st; s_max := s_max st; s_min := s_min st; s_null := true |}
  end.
Fixpoint scan_from (st : scan_st) (cs : list (option weight)) : option scan_st :=
  match cs with
  | [] => Some st
  | c :: r => match scan_cell st c with Some st' => scan_from st' r | None => None end
  end.

(* ---- lines 542-549 and 557: dtype choice and np.array(weights, dtype=dtype) *)
Inductive dtype := DBool | DFloat | DInt (d : np_dtype).

Definition fitsb (d : np_dtype) (x : Z) : bool :=
  let '(_, signed, bits) := d in
  if signed then (- 2 ^ (bits - 1) <=? x) && (x <? 2 ^ (bits - 1))
  else (0 <=? x) && (x <? 2 ^ bits).

(* numpy >= 2: a Python int outside the dtype raises OverflowError (None); dtype=bool maps non-zero to True;
   dtype=float is exact on the domain (MatchSpec, float_safeb) *)
Definition cast_matrix (dt : dtype) (M : matrix) : option matrix :=
  match dt with
  | DBool => Some (map (map (fun x => if x =? 0 then 0 else 1)) M)
  | DFloat => Some M
  | DInt d => if forallb (forallb (fitsb d)) M then Some M else None
  end.

Definition oz (o : option Z) : Z := match o with Some z => z | None => 0 end.

(* everything up to the call of the solver *)
Inductive prep := PErr (e : exn) | PEmpty | PSolve (has_null_edges : bool) (null_edge_value : Z) (M : matrix).

Definition prepare (u : Z) (W : table) : prep :=
  match scan_from scan_init (cells W) with
  | None => PErr ValueError
  | Some st =>
      (* lines 526-528: `if edge_type is None: return {}` comes BEFORE the null-edge block: a table with no
         existing pair (in particular a non-empty table with every pair missing) yields the empty pairing *)
      match s_ty st with
      | None => PEmpty
      | Some t =>
          (* the literal 1 in `... + 1` is an int; on a float table it acts as 1.0 = u scaled *)
          let one := match t with TFloat => u | _ => 1 end in
          (* lines 530-540.  `isinstance(edge_type, bool)` is never true (edge_type is a class), so the documented
             ValueError for incomplete bool tables is dead code. *)
          match (if s_null st then
                   match zmax_list (col_sums W) with
                   | None => inl ValueError              (* max() of an empty sequence *)
                   | Some mx =>
                       let nev := mx + one in
                       match s_max st with
                       | None => inl TypeError           (* int > None; unreachable: edge_type is set with max_edge *)
                       | Some me => if nev >? me then inr (nev, Some nev) else inl AssertionError
                       end
                   end
                 else inr (0, s_max st)) with
          | inl e => PErr e
          | inr (nev, max_edge') =>
              (* lines 542-549 *)
              let dt := match t with
                        | TBool => DBool
                        | TFloat => DFloat
                        | TInt => DInt (get_dtype (oz (s_min st)) (oz max_edge'))
                        end in
              (* lines 551-557: fill the missing pairs, build the array *)
              match cast_matrix dt (fill nev W) with
              | None => PErr OverflowError
              | Some M => PSolve (s_null st) nev M
              end
          end
      end
  end.

(* ---- lines 558-562: the dict comprehension over the zipped solver answer.  `weights[i][j]` is the Python-level
   table after filling: a present pair keeps its original object, a missing one holds null_edge_value (and
   `null_edge_value < null_edge_value` is false).  None = IndexError (solver answer outside the table). *)
Fixpoint report (W : table) (hn : bool) (s : Z) (a : list (nat * nat)) : option matching :=
  match a with
  | [] => Some []
  | (i, j) :: r =>
      match nth_error W i with
      | None => None
      | Some row =>
          match nth_error row j with
          | None => None
          | Some cell =>
              match report W hn s r with
              | None => None
              | Some m =>
                  match cell with
                  | Some w => Some (if negb hn || (wnum w <? s) then (i, (j, w)) :: m else m)
                  | None => Some m
                  end
              end
          end
      end
  end.

Definition mwbm (solve : matrix -> list (nat * nat)) (u : Z) (W : table) : result :=
  match prepare u W with
  | PErr e => Err e
  | PEmpty => OK []
  | PSolve hn s M => match report W hn s (solve M) with Some m => OK m | None => Err IndexError end
  end.

(* ------------------------------------------------------------------ correspondence *)
Definition pair_eqb (p q : nat * (nat * weight)) : bool :=
  Nat.eqb (fst p) (fst q) && Nat.eqb (fst (snd p)) (fst (snd q)) && weight_eqb (snd (snd p)) (snd (snd q)).
Fixpoint list_eqb {A} (eq : A -> A -> bool) (l m : list A) : bool :=
  match l, m with
  | [], [] => true
  | x :: l', y :: m' => eq x y && list_eqb eq l' m'
  | _, _ => false
  end.
Definition result_eqb (a b : result) : bool :=
  match a, b with
  | OK m, OK m' => list_eqb pair_eqb m m'
  | Err e, Err e' => exn_eqb e e'
  | _, _ => false
  end.
Definition matrix_eqb (A B : matrix) : bool := list_eqb (list_eqb Z.eqb) A B.

Definition assignmentb (r c : nat) (a : list (nat * nat)) : bool :=
  nodupb (map fst a) && nodupb (map snd a) && forallb (fun p => Nat.ltb (fst p) r && Nat.ltb (snd p) c) a.
(* the contract `optimal_full` tested on one observed answer of the real solver *)
Definition solver_okb (M : matrix) (a : list (nat * nat)) : bool :=
  assignmentb (length M) (mcols M) a && Nat.eqb (length a) (Nat.min (length M) (mcols M)) &&
  (mtotal M a =? brute_opt M).

(* the implementation's outcome vs the model's:
   - with the brute-force solver in place of scipy: same kind of outcome (same exception class); on complete
     tables on which float64 arithmetic is exact, same number of pairs and same total (pairings are not unique
     under ties, totals are);
   - with scipy's observed answer fed in as the oracle: the matrix handed to scipy is the model's matrix, the
     returned dict is the model's, entry by entry in order; and that answer satisfies the solver contract
     whenever float64 arithmetic is exact on the matrix. *)
Definition corr_C15 (c : case) : bool :=
  let W := c_table c in
  let u := c_unit c in
  let mb := mwbm brute_solve u W in
  match mb, c_result c with
  | OK m, OK m' => has_null W || kf_beyond_2p53 u W || (Nat.eqb (length m) (length m') && (total m =? total m'))
  | Err e, Err e' => exn_eqb e e'
  | _, _ => false
  end &&
  match c_solver c, prepare u W with
  | Some (M, a), PSolve _ _ M' =>
      matrix_eqb M M' && result_eqb (mwbm (fun _ => a) u W) (c_result c) && (negb (float_safeb M) || solver_okb M a)
  | None, PSolve _ _ _ => false
  | Some _, _ => false
  | None, _ => result_eqb mb (c_result c)
  end.
