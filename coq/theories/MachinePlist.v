(* C04: Apple plist documents.  PLISTNode(root).edits(PLISTNode(root')) is an EditCollection (explode_edits = False,
   collection = list) over the two edits [Match(self, node, 0); root.edits(root')] with
   cost_upper_bound = root.total_size + 1 + root'.total_size  (plist.py:20-34; PLISTNode.calculate_total_size is the
   root's).  Model: the collection machine of MachineModel.v over [SConst 0; initO root root'], inside the domain of the
   collection contract (the children's initial upper bounds fit cost_upper_bound).
   Not modelled: a root edit that is itself an EditCollection (FixedKeyDictNode roots, dictionary strategy none):
   EditCollection.tighten_bounds tests `if self._expand_edits() and ...`, and the truth value of the returned edit is
   EditCollection.__len__, which expands the child collection completely as a side effect (the only Edit class with a
   __len__); such pairs are validated by trace only.  Definitions only. *)
From Coq Require Import ZArith List Bool.
Require Import GT.PyBase GT.Data GT.MachineSpec GT.MachineModel.
Import ListNotations.
Open Scope Z_scope.

Definition is_coll (s : st) : bool := match s with SColl _ => true | _ => false end.

Definition initP (orc : oracle) (a b : tree) : option st :=
  match initO orc a b with
  | Some s =>
      let U := size a + 1 + size b in
      if is_coll s then None
      else if snd (bndU s) <=? U then Some (SColl (coll_init bndU U [SConst 0; s])) else None
  | None => None
  end.

Definition model_trace_P (orc : oracle) (a b : tree) : option (list ev) :=
  match initP orc a b with
  | Some s => Some (EB (rng_of (bndU s)) :: trace_of (UM (sheight s)) (S (S (Z.to_nat (width (bndU s))))) s)
  | None => None
  end.

(* the case carries the two ROOT trees; the first object is the actively driven EditCollection of the two PLISTNodes *)
Definition modelled_plist_C04 (c : ccase) : bool :=
  cc_root c && match initP (cc_orc c) (c_a (cc_case c)) (c_b (cc_case c)) with Some _ => true | None => false end.

Definition corr_plist_C04 (c : ccase) : bool :=
  if cc_root c then
    match model_trace_P (cc_orc c) (c_a (cc_case c)) (c_b (cc_case c)), c_objs (cc_case c) with
    | Some tr, o :: _ => evs_eqb (dedup_B None tr) (upto_false (ot_events o))
    | Some _, [] => false
    | None, _ => true
    end
  else true.
