(* C01 for MultiSetEdit and FixedKeyDictNode edits: every element of either side is accounted for exactly once. *)
From Coq Require Import ZArith List Bool Lia Permutation.
Require Import GT.PyBase GT.Data GT.ScriptSpec GT.EdEngine GT.LevModel GT.EdTypes GTgen.EdGen GT.EdParams
               GT.ScriptModel GT.ListAux GT.KeyEq GT.ScriptProofs.
Import ListNotations.
Open Scope Z_scope.

(* ---------------------------------------------------------------- splitting index lists *)
Lemma NoDup_app_intro : forall {A} (a b : list A),
  NoDup a -> NoDup b -> (forall x, In x a -> ~ In x b) -> NoDup (a ++ b).
Proof.
  induction a as [|x a IH]; intros b Ha Hb Hd; cbn; [exact Hb|].
  inversion Ha; subst. constructor.
  - intro Hin. apply in_app_or in Hin. destruct Hin as [Hin|Hin]; [contradiction|].
    apply (Hd x); [left; reflexivity|exact Hin].
  - apply IH; [assumption|exact Hb|]. intros y Hy. apply Hd. right. exact Hy.
Qed.

Lemma nat_in_spec : forall x l, nat_in x l = true <-> In x l.
Proof. intros. unfold nat_in. apply existsb_nat_in. Qed.

Lemma nat_in_false : forall x l, nat_in x l = false <-> ~ In x l.
Proof.
  intros x l. split; intro H.
  - intro Hin. apply nat_in_spec in Hin. congruence.
  - destruct (nat_in x l) eqn:E; [|reflexivity]. apply nat_in_spec in E. contradiction.
Qed.

Lemma subset_split : forall (l s : list nat), NoDup l -> NoDup s -> incl s l ->
  Permutation (s ++ filter (fun x => negb (nat_in x s)) l) l.
Proof.
  intros l s Hl Hs Hincl. apply NoDup_Permutation.
  - apply NoDup_app_intro; [exact Hs|apply NoDup_filter; exact Hl|].
    intros x Hx Hf. apply filter_In in Hf. destruct Hf as [_ Hf]. apply negb_true_iff, nat_in_false in Hf. contradiction.
  - exact Hl.
  - intro x. rewrite in_app_iff, filter_In. split.
    + intros [H|[H _]]; [apply Hincl; exact H|exact H].
    + intro H. destruct (nat_in x s) eqn:E; [left; apply nat_in_spec; exact E|right; split; [exact H|reflexivity]].
Qed.

(* ---------------------------------------------------------------- find_index *)
Lemma find_index_some : forall {A} (f : A -> bool) l n k,
  find_index f l n = Some k ->
  (n <= k)%nat /\ exists x, nth_error l (k - n) = Some x /\ f x = true /\
  forall k' y, (k' < k - n)%nat -> nth_error l k' = Some y -> f y = false.
Proof.
  induction l as [|x l IH]; intros n k H; cbn in H; [discriminate|].
  destruct (f x) eqn:Ef.
  - inversion H; subst. split; [lia|]. rewrite Nat.sub_diag. exists x. cbn. repeat split; auto. intros k' y Hk. lia.
  - apply IH in H. destruct H as [Hle [y [Hy [Hfy Hfirst]]]]. split; [lia|].
    exists y. replace (k - n)%nat with (S (k - S n)) by lia. cbn. repeat split; auto.
    intros k' z Hk Hz. destruct k' as [|k']; cbn in Hz; [inversion Hz; subst; exact Ef|].
    apply (Hfirst k' z); [lia|exact Hz].
Qed.

Lemma find_index_none : forall {A} (f : A -> bool) l n, find_index f l n = None -> forall x, In x l -> f x = false.
Proof.
  induction l as [|x l IH]; intros n H y Hy; [destruct Hy|]. cbn in H.
  destruct (f x) eqn:Ef; [discriminate|]. destruct Hy as [<-|Hy]; [exact Ef|]. eapply IH; eauto.
Qed.

(* ---------------------------------------------------------------- the key pre-matching loop *)
Lemma prematch_spec : forall cs i0 ds used i j,
  In (i, j) (prematch cs i0 ds used) ->
  (i0 <= i < i0 + length cs)%nat /\ ~ In j used /\
  exists c d, nth_error cs (i - i0) = Some c /\ nth_error ds j = Some d /\ is_kvp c = true /\ key_eqb c d = true /\
              (forall j' d', (j' < j)%nat -> nth_error ds j' = Some d' -> key_eqb c d' = false).
Proof.
  induction cs as [|f cs IH]; intros i0 ds used i j H; cbn in H; [destruct H|].
  assert (Htail : forall used', In (i, j) (prematch cs (S i0) ds used') -> (forall x, In x used -> In x used') ->
            (i0 <= i < i0 + length (f :: cs))%nat /\ ~ In j used /\
            exists c d, nth_error (f :: cs) (i - i0) = Some c /\ nth_error ds j = Some d /\ is_kvp c = true /\
                        key_eqb c d = true /\
                        (forall j' d', (j' < j)%nat -> nth_error ds j' = Some d' -> key_eqb c d' = false)).
  { intros used' Hin Hsub. apply IH in Hin. destruct Hin as [Hr [Hnu [c [d Hcd]]]].
    split; [cbn; lia|]. split; [intro Hu; apply Hnu, Hsub, Hu|].
    exists c, d. replace (i - i0)%nat with (S (i - S i0)) by lia. exact Hcd. }
  destruct (is_kvp f) eqn:Ek; [|apply (Htail used H); auto].
  destruct (find_index _ ds 0) as [j0|] eqn:Ef; [|apply (Htail used H); auto].
  destruct (nat_in j0 used) eqn:Eu; [apply (Htail used H); auto|].
  destruct H as [H|H]; [|apply (Htail (j0 :: used) H); intros x Hx; right; exact Hx].
  inversion H; subst i j; clear H. apply find_index_some in Ef. destruct Ef as [_ [d [Hd [Hfd Hfirst]]]].
  rewrite Nat.sub_0_r in Hd. split; [cbn; lia|]. split; [apply nat_in_false; exact Eu|].
  exists f, d. rewrite Nat.sub_diag. cbn. repeat split; auto.
  intros j' d' Hj Hd'. apply (Hfirst j' d'); [lia|exact Hd'].
Qed.

Lemma prematch_fst_lower : forall cs i0 ds used p, In p (prematch cs i0 ds used) -> (i0 <= fst p)%nat.
Proof. intros cs i0 ds used [i j] H. apply prematch_spec in H. cbn. lia. Qed.

Lemma prematch_fst_nodup : forall cs i0 ds used, NoDup (map fst (prematch cs i0 ds used)).
Proof.
  induction cs as [|f cs IH]; intros i0 ds used; cbn; [constructor|].
  destruct (is_kvp f); [|apply IH]. destruct (find_index _ ds 0) as [j0|]; [|apply IH].
  destruct (nat_in j0 used); [apply IH|]. cbn. constructor; [|apply IH].
  intro Hin. apply in_map_iff in Hin. destruct Hin as [p [Hp Hin]]. apply prematch_fst_lower in Hin. lia.
Qed.

Lemma prematch_snd_nodup : forall cs i0 ds used, NoDup (map snd (prematch cs i0 ds used)).
Proof.
  induction cs as [|f cs IH]; intros i0 ds used; cbn; [constructor|].
  destruct (is_kvp f); [|apply IH]. destruct (find_index _ ds 0) as [j0|]; [|apply IH].
  destruct (nat_in j0 used); [apply IH|]. cbn. constructor; [|apply IH].
  intro Hin. apply in_map_iff in Hin. destruct Hin as [[i j] [Hp Hin]]. cbn in Hp. subst j.
  apply prematch_spec in Hin. destruct Hin as [_ [Hnu _]]. apply Hnu. left. reflexivity.
Qed.

(* ---------------------------------------------------------------- MultiSetEdit: naming its parts *)
Section MS.
  Variables (O : oracle) (pa pb : path) (amk : bool) (cs ds : list tree) (M : list (list res)).
  Definition ms_pre := if amk then prematch cs 0 ds [] else [].
  Definition ms_fl := filter (fun i => negb (nat_in i (map fst ms_pre))) (seq 0 (length cs)).
  Definition ms_tl := filter (fun j => negb (nat_in j (map snd ms_pre))) (seq 0 (length ds)).
  Definition ms_eq (i j : nat) := node_eqb (nth i cs dummy) (nth j ds dummy).
  Definition ms_exact := flat_map (fun i => match find (fun j => ms_eq i j) ms_tl with Some j => [(i, j)] | None => [] end) ms_fl.
  Definition ms_R := filter (fun i => negb (existsb (fun j => ms_eq i j) ms_tl)) ms_fl.
  Definition ms_I := filter (fun j => negb (existsb (fun i => ms_eq i j) ms_fl)) ms_tl.
  Definition ms_get (ij : nat * nat) :=
    match mget M (fst ij) (snd ij) with Some (OK e) => Some (SPair (fst ij) (snd ij) e) | _ => None end.
  Definition ms_matching : option (list (nat * nat)) :=
    match ms_R, ms_I with
    | [], _ | _, [] => Some []
    | _, _ => match lookup pa pb (o_match O) with
              | Some mt =>
                  if forallb (fun xy => Nat.ltb (fst xy) (length ms_R) && Nat.ltb (snd xy) (length ms_I)) mt
                     && distinct_nats (map fst mt) && distinct_nats (map snd mt)
                  then Some (map (fun xy => (nth (fst xy) ms_R 0%nat, nth (snd xy) ms_I 0%nat)) mt)
                  else None
              | None => None
              end
    end.

  Lemma multiset_script_unfold :
    multiset_script O pa pb amk cs ds M =
    match ms_matching with
    | None => match lookup pa pb (o_match O) with None => Err ENoOracle | Some _ => Err EBadOracle end
    | Some mt =>
        match all_some (map ms_get ms_pre), all_some (map ms_get mt) with
        | Some pre_subs, Some mt_subs =>
            let rem_left := filter (fun i => negb (nat_in i (map fst mt))) ms_R in
            let ins_left := filter (fun j => negb (nat_in j (map snd mt))) ms_I in
            let rcost := fun i => remove_cost (nth i cs dummy) 1 in
            let icost := fun j => insert_cost (nth j ds dummy) 1 in
            let own := zsum (map sub_cost mt_subs) + zsum (map sub_cost pre_subs) +
                       multiset_leftover_cost (map rcost ms_R) (map icost ms_I) (map rcost rem_left) (map icost ins_left) in
            OK (EComp KMultiSet own
                  (map (fun ij => SPair (fst ij) (snd ij) (EMatch 0)) ms_exact ++ pre_subs ++ mt_subs ++
                   map (fun i => SRem i (rcost i)) rem_left ++ map (fun j => SIns j (icost j)) ins_left))
        | _, _ => Err ENoOracle
        end
    end.
  Proof. reflexivity. Qed.
End MS.

(* ---------------------------------------------------------------- generic facts for the index bookkeeping *)
Lemma distinct_nats_nodup : forall l, distinct_nats l = true -> NoDup l.
Proof.
  induction l as [|x l IH]; cbn; intro H; [constructor|]. apply andb_prop in H as [H1 H2].
  constructor; [apply nat_in_false, negb_true_iff; exact H1|apply IH; exact H2].
Qed.

Lemma NoDup_map_nth : forall (l xs : list nat) d, NoDup l -> NoDup xs -> (forall x, In x xs -> (x < length l)%nat) ->
  NoDup (map (fun x => nth x l d) xs).
Proof.
  intros l xs d Hl. induction xs as [|x xs IH]; intros Hxs Hr; cbn; [constructor|].
  inversion Hxs; subst. constructor; [|apply IH; [assumption|intros y Hy; apply Hr; right; exact Hy]].
  intro Hin. apply in_map_iff in Hin. destruct Hin as [y [Hy Hin]].
  assert (y = x). { apply (proj1 (NoDup_nth l d) Hl); [apply Hr; right; exact Hin|apply Hr; left; reflexivity|exact Hy]. }
  subst. contradiction.
Qed.

Lemma filter_all_true : forall {A} (f : A -> bool) l, (forall x, In x l -> f x = true) -> filter f l = l.
Proof.
  induction l as [|x l IH]; intro H; cbn; [reflexivity|]. rewrite (H x) by (left; reflexivity).
  f_equal. apply IH. intros y Hy. apply H. right. exact Hy.
Qed.

Lemma map_fst_partner : forall (f : nat -> nat -> bool) (l L : list nat),
  map fst (flat_map (fun i => match find (f i) l with Some j => [(i, j)] | None => [] end) L)
  = filter (fun i => existsb (f i) l) L.
Proof.
  intros f l. induction L as [|i L IH]; cbn; [reflexivity|]. rewrite map_app, IH.
  destruct (find (f i) l) as [j|] eqn:E.
  - apply find_some in E. destruct E as [Hin Hf].
    assert (existsb (f i) l = true) by (apply existsb_exists; eauto). rewrite H. reflexivity.
  - assert (existsb (f i) l = false).
    { destruct (existsb (f i) l) eqn:Ex; [|reflexivity]. apply existsb_exists in Ex. destruct Ex as [j [Hj Hfj]].
      rewrite (find_none _ _ E j Hj) in Hfj. discriminate. }
    rewrite H. reflexivity.
Qed.

Lemma in_partner : forall (f : nat -> nat -> bool) (l L : list nat) i j,
  In (i, j) (flat_map (fun i => match find (f i) l with Some j => [(i, j)] | None => [] end) L) <->
  In i L /\ find (f i) l = Some j.
Proof.
  intros f l L i j. rewrite in_flat_map. split.
  - intros [i' [Hi' Hin]]. destruct (find (f i') l) as [j'|] eqn:E; [|destruct Hin].
    destruct Hin as [Hin|[]]. inversion Hin; subst. auto.
  - intros [Hi Hf]. exists i. split; [exact Hi|]. rewrite Hf. left. reflexivity.
Qed.

Lemma nodup_snd_partner : forall (f : nat -> nat -> bool) (l L : list nat),
  NoDup L ->
  (forall i i' j, In i L -> In i' L -> find (f i) l = Some j -> find (f i') l = Some j -> i = i') ->
  NoDup (map snd (flat_map (fun i => match find (f i) l with Some j => [(i, j)] | None => [] end) L)).
Proof.
  intros f l L HL Hinj. induction L as [|i L IH]; cbn; [constructor|]. inversion HL; subst.
  rewrite map_app. destruct (find (f i) l) as [j|] eqn:E; cbn.
  - constructor.
    + intro Hin. apply in_map_iff in Hin. destruct Hin as [[i' j'] [Hj Hin]]. cbn in Hj. subst j'.
      apply in_partner in Hin. destruct Hin as [Hi' Hf'].
      assert (i = i') by (apply (Hinj i i' j); [left; reflexivity|right; exact Hi'|exact E|exact Hf']).
      subst. contradiction.
    + apply IH; [assumption|]. intros a b c Ha Hb. apply Hinj; right; assumption.
  - apply IH; [assumption|]. intros a b c Ha Hb. apply Hinj; right; assumption.
Qed.

Lemma nth_error_nth_lt : forall {A} (l : list A) i d, (i < length l)%nat -> nth_error l i = Some (nth i l d).
Proof. intros. apply nth_error_nth'. assumption. Qed.

Lemma filter_seq_lt : forall f n i, In i (filter f (seq 0 n)) -> (i < n)%nat.
Proof. intros f n i H. apply filter_In in H. destruct H as [H _]. apply in_seq in H. lia. Qed.

(* ---------------------------------------------------------------- MultiSetEdit: both sides are covered exactly once *)
Section MSCover.
  Variables (O : oracle) (pa pb : path) (amk : bool) (cs ds : list tree) (M : list (list res)).
  Hypothesis Hcs : Forall kvp_ok cs.
  Hypothesis Hds : Forall kvp_ok ds.
  Hypothesis Kcs : keys_distinct node_eqb cs = true.
  Hypothesis Kds : keys_distinct node_eqb ds = true.
  Notation pre := (ms_pre amk cs ds).
  Notation fl := (ms_fl amk cs ds).
  Notation tl := (ms_tl amk cs ds).
  Notation exact := (ms_exact amk cs ds).
  Notation R := (ms_R amk cs ds).
  Notation II := (ms_I amk cs ds).
  Notation eq_ij := (ms_eq cs ds).

  Lemma pre_in : forall i j, In (i, j) pre -> (i < length cs)%nat /\ (j < length ds)%nat.
  Proof.
    intros i j H. unfold ms_pre in H. destruct amk; [|destruct H]. apply prematch_spec in H.
    destruct H as [Hr [_ [c [d [_ [Hd _]]]]]]. split; [lia|]. apply nth_error_Some. congruence.
  Qed.

  Lemma pre_fst_nodup : NoDup (map fst pre).
  Proof. unfold ms_pre. destruct amk; [apply prematch_fst_nodup|constructor]. Qed.
  Lemma pre_snd_nodup : NoDup (map snd pre).
  Proof. unfold ms_pre. destruct amk; [apply prematch_snd_nodup|constructor]. Qed.

  Lemma from_pre_fl : Permutation (map fst pre ++ fl) (seq 0 (length cs)).
  Proof.
    apply subset_split; [apply seq_NoDup|apply pre_fst_nodup|].
    intros i Hi. apply in_map_iff in Hi. destruct Hi as [[i' j] [<- Hin]]. apply pre_in in Hin. apply in_seq. cbn. lia.
  Qed.
  Lemma to_pre_tl : Permutation (map snd pre ++ tl) (seq 0 (length ds)).
  Proof.
    apply subset_split; [apply seq_NoDup|apply pre_snd_nodup|].
    intros j Hj. apply in_map_iff in Hj. destruct Hj as [[i j'] [<- Hin]]. apply pre_in in Hin. apply in_seq. cbn. lia.
  Qed.

  Lemma fl_lt : forall i, In i fl -> (i < length cs)%nat.
  Proof. intros i. apply filter_seq_lt. Qed.
  Lemma tl_lt : forall j, In j tl -> (j < length ds)%nat.
  Proof. intros j. apply filter_seq_lt. Qed.
  Lemma fl_nodup : NoDup fl. Proof. apply NoDup_filter, seq_NoDup. Qed.
  Lemma tl_nodup : NoDup tl. Proof. apply NoDup_filter, seq_NoDup. Qed.

  Lemma from_exact_R : Permutation (map fst exact ++ R) fl.
  Proof. unfold ms_exact, ms_R. rewrite map_fst_partner. apply filter_partition_perm. Qed.

  Lemma cs_ok : forall i, (i < length cs)%nat -> kvp_ok (nth i cs dummy) /\ nth_error cs i = Some (nth i cs dummy).
  Proof.
    intros i Hi. pose proof (nth_error_nth_lt cs i dummy Hi) as Hn. split; [|exact Hn].
    eapply Forall_forall; [exact Hcs|eapply nth_error_In; exact Hn].
  Qed.
  Lemma ds_ok : forall j, (j < length ds)%nat -> kvp_ok (nth j ds dummy) /\ nth_error ds j = Some (nth j ds dummy).
  Proof.
    intros j Hj. pose proof (nth_error_nth_lt ds j dummy Hj) as Hn. split; [|exact Hn].
    eapply Forall_forall; [exact Hds|eapply nth_error_In; exact Hn].
  Qed.

  (* an element of cs equals at most one element of ds and vice versa *)
  Lemma eq_ij_unique_to : forall i j j', (i < length cs)%nat -> (j < length ds)%nat -> (j' < length ds)%nat ->
    eq_ij i j = true -> eq_ij i j' = true -> j = j'.
  Proof.
    intros i j j' Hi Hj Hj' H1 H2. unfold ms_eq in *.
    destruct (cs_ok i Hi) as [Ci _]. destruct (ds_ok j Hj) as [Dj Nj]. destruct (ds_ok j' Hj') as [Dj' Nj'].
    apply (keys_distinct_nth ds j j' _ _ Kds Hds Nj Nj').
    apply (key_eqb_trans _ (nth i cs dummy)); auto.
    - rewrite key_eqb_sym by assumption. apply node_eqb_key; assumption.
    - apply node_eqb_key; assumption.
  Qed.
  Lemma eq_ij_unique_from : forall i i' j, (i < length cs)%nat -> (i' < length cs)%nat -> (j < length ds)%nat ->
    eq_ij i j = true -> eq_ij i' j = true -> i = i'.
  Proof.
    intros i i' j Hi Hi' Hj H1 H2. unfold ms_eq in *.
    destruct (cs_ok i Hi) as [Ci Ni]. destruct (cs_ok i' Hi') as [Ci' Ni']. destruct (ds_ok j Hj) as [Dj _].
    apply (keys_distinct_nth cs i i' _ _ Kcs Hcs Ni Ni').
    apply (key_eqb_trans _ (nth j ds dummy)); auto.
    - apply node_eqb_key; assumption.
    - rewrite key_eqb_sym by assumption. apply node_eqb_key; assumption.
  Qed.

  Lemma to_exact_I : Permutation (map snd exact ++ II) tl.
  Proof.
    assert (Hperm : Permutation (map snd exact) (filter (fun j => existsb (fun i => eq_ij i j) fl) tl)).
    { apply NoDup_Permutation.
      - apply nodup_snd_partner; [apply fl_nodup|].
        intros i i' j Hi Hi' Hf Hf'. apply find_some in Hf, Hf'. destruct Hf as [Hj Hf]. destruct Hf' as [_ Hf'].
        apply (eq_ij_unique_from i i' j); auto using fl_lt, tl_lt.
      - apply NoDup_filter, tl_nodup.
      - intro j. rewrite filter_In. split.
        + intro Hin. apply in_map_iff in Hin. destruct Hin as [[i j'] [Hj Hin]]. cbn in Hj. subst j'.
          apply in_partner in Hin. destruct Hin as [Hi Hf]. apply find_some in Hf. destruct Hf as [Hj Hf].
          split; [exact Hj|]. apply existsb_exists. exists i. auto.
        + intros [Hj Hex]. apply existsb_exists in Hex. destruct Hex as [i [Hi Hij]].
          destruct (find (fun j0 => eq_ij i j0) tl) as [j'|] eqn:Ef.
          * pose proof (find_some _ _ Ef) as [Hj' Hij'].
            assert (j = j') by (apply (eq_ij_unique_to i j j'); auto using fl_lt, tl_lt). subst j'.
            apply in_map_iff. exists (i, j). split; [reflexivity|]. apply in_partner. auto.
          * rewrite (find_none _ _ Ef j Hj) in Hij. discriminate. }
    rewrite Hperm. unfold ms_I. apply filter_partition_perm.
  Qed.

  Lemma R_nodup : NoDup R. Proof. apply NoDup_filter, fl_nodup. Qed.
  Lemma I_nodup : NoDup II. Proof. apply NoDup_filter, tl_nodup. Qed.

  Lemma matching_split : forall mt, ms_matching O pa pb amk cs ds = Some mt ->
    Permutation (map fst mt ++ filter (fun i => negb (nat_in i (map fst mt))) R) R /\
    Permutation (map snd mt ++ filter (fun j => negb (nat_in j (map snd mt))) II) II /\
    (forall i j, In (i, j) mt -> In i R /\ In j II).
  Proof.
    intros mt H. unfold ms_matching in H.
    assert (Hnil : mt = [] -> Permutation (map fst mt ++ filter (fun i => negb (nat_in i (map fst mt))) R) R /\
                   Permutation (map snd mt ++ filter (fun j => negb (nat_in j (map snd mt))) II) II /\
                   (forall i j, In (i, j) mt -> In i R /\ In j II)).
    { intros ->. cbn. rewrite !filter_all_true by (intros; reflexivity). repeat split; auto; contradiction. }
    destruct R as [|r0 R'] eqn:ER; [cbn in H; apply Hnil; congruence|].
    destruct II as [|i0 I'] eqn:EI; [cbn in H; apply Hnil; congruence|].
    rewrite <- ER, <- EI in *. clear Hnil.
    destruct (lookup pa pb (o_match O)) as [mt0|]; [|discriminate].
    destruct (forallb _ mt0 && distinct_nats (map fst mt0) && distinct_nats (map snd mt0)) eqn:Ec; [|discriminate].
    inversion H; subst mt; clear H. apply andb_prop in Ec as [Ec Hd2]. apply andb_prop in Ec as [Hrange Hd1].
    rewrite forallb_forall in Hrange.
    assert (Hr1 : forall x, In x (map fst mt0) -> (x < length R)%nat).
    { intros x Hx. apply in_map_iff in Hx. destruct Hx as [xy [<- Hin]]. specialize (Hrange xy Hin).
      apply andb_prop in Hrange as [H1 _]. apply Nat.ltb_lt in H1. exact H1. }
    assert (Hr2 : forall y, In y (map snd mt0) -> (y < length II)%nat).
    { intros y Hy. apply in_map_iff in Hy. destruct Hy as [xy [<- Hin]]. specialize (Hrange xy Hin).
      apply andb_prop in Hrange as [_ H2]. apply Nat.ltb_lt in H2. exact H2. }
    rewrite !map_map. cbn [fst snd].
    rewrite <- (map_map fst (fun x => nth x R 0%nat)), <- (map_map snd (fun y => nth y II 0%nat)).
    repeat split.
    - apply subset_split; [apply R_nodup| |].
      + apply NoDup_map_nth; [apply R_nodup|apply distinct_nats_nodup; exact Hd1|exact Hr1].
      + intros x Hx. apply in_map_iff in Hx. destruct Hx as [k [<- Hk]]. apply nth_In. apply Hr1. exact Hk.
    - apply subset_split; [apply I_nodup| |].
      + apply NoDup_map_nth; [apply I_nodup|apply distinct_nats_nodup; exact Hd2|exact Hr2].
      + intros x Hx. apply in_map_iff in Hx. destruct Hx as [k [<- Hk]]. apply nth_In. apply Hr2. exact Hk.
    - apply in_map_iff in H. destruct H as [xy [Heq Hin]]. inversion Heq; subst.
      apply nth_In. apply Hr1. apply in_map. exact Hin.
    - apply in_map_iff in H. destruct H as [xy [Heq Hin]]. inversion Heq; subst.
      apply nth_In. apply Hr2. apply in_map. exact Hin.
  Qed.
End MSCover.

(* ---------------------------------------------------------------- MultiSetEdit is valid *)
Lemma wf_mset_parts : forall cs, forallb (fun c => is_kvp c && wf c) cs = true ->
  Forall kvp_ok cs /\ forall c, In c cs -> wf c = true.
Proof.
  intros cs H. rewrite forallb_forall in H. split.
  - apply Forall_forall. intros c Hc. specialize (H c Hc). apply andb_prop in H as [H1 H2]. apply wf_kvp_ok; assumption.
  - intros c Hc. specialize (H c Hc). apply andb_prop in H. tauto.
Qed.

Lemma ms_get_sub : forall M ij s, ms_get M ij = Some s -> exists e, s = SPair (fst ij) (snd ij) e /\ mget M (fst ij) (snd ij) = Some (OK e).
Proof.
  intros M ij s H. unfold ms_get in H. destruct (mget M (fst ij) (snd ij)) as [[e|]|]; inversion H. eauto.
Qed.

Lemma ms_subs_from : forall M l subs, Forall2 (fun x y => ms_get M x = Some y) l subs -> flat_map from_idx subs = map fst l.
Proof.
  intros M l subs H. induction H as [|x y l r Hxy _ IH]; cbn; [reflexivity|].
  apply ms_get_sub in Hxy. destruct Hxy as [e [-> _]]. cbn. rewrite IH. reflexivity.
Qed.
Lemma ms_subs_to : forall M l subs, Forall2 (fun x y => ms_get M x = Some y) l subs -> flat_map to_idx subs = map snd l.
Proof.
  intros M l subs H. induction H as [|x y l r Hxy _ IH]; cbn; [reflexivity|].
  apply ms_get_sub in Hxy. destruct Hxy as [e [-> _]]. cbn. rewrite IH. reflexivity.
Qed.

Lemma flat_from_pairs_gen : forall {A} (f g : A -> nat) (h : A -> edit) (l : list A),
  flat_map from_idx (map (fun x => SPair (f x) (g x) (h x)) l) = map f l.
Proof. induction l as [|x l IH]; cbn; [reflexivity|]. rewrite IH. reflexivity. Qed.
Lemma flat_to_pairs_gen : forall {A} (f g : A -> nat) (h : A -> edit) (l : list A),
  flat_map to_idx (map (fun x => SPair (f x) (g x) (h x)) l) = map g l.
Proof. induction l as [|x l IH]; cbn; [reflexivity|]. rewrite IH. reflexivity. Qed.

Lemma multiset_valid : forall O pa pb amk cs amk' ds e,
  Forall Pvalid cs -> wf (MSet amk cs) = true -> wf (MSet amk' ds) = true ->
  multiset_script O pa pb amk cs ds (sub_matrix O pa pb cs ds) = OK e ->
  valid (MSet amk cs) (MSet amk' ds) e = true.
Proof.
  intros O pa pb amk cs amk' ds e IH Hwa Hwb H. cbn in Hwa, Hwb.
  apply andb_prop in Hwa as [Hwa Kcs]. apply andb_prop in Hwb as [Hwb Kds].
  destruct (wf_mset_parts _ Hwa) as [Hcs Hwcs]. destruct (wf_mset_parts _ Hwb) as [Hds Hwds].
  set (M := sub_matrix O pa pb cs ds) in *.
  rewrite multiset_script_unfold in H.
  destruct (ms_matching O pa pb amk cs ds) as [mt|] eqn:Emt; [|destruct (lookup pa pb (o_match O)); discriminate].
  destruct (all_some (map (ms_get M) (ms_pre amk cs ds))) as [pre_subs|] eqn:Epre; [|discriminate].
  destruct (all_some (map (ms_get M) mt)) as [mt_subs|] eqn:Emts; [|discriminate].
  cbv zeta in H. inversion H; subst e; clear H.
  apply all_some_map in Epre, Emts.
  destruct (matching_split O pa pb amk cs ds mt Emt) as [HpR [HpI Hin_mt]].
  cbn [valid kind_fits ordered_kind children].
  rewrite !flat_map_app'.
  rewrite (flat_from_pairs_gen fst snd (fun _ => EMatch 0)), (flat_to_pairs_gen fst snd (fun _ => EMatch 0)).
  rewrite (ms_subs_from _ _ _ Epre), (ms_subs_to _ _ _ Epre), (ms_subs_from _ _ _ Emts), (ms_subs_to _ _ _ Emts).
  rewrite (flat_from_rems (fun i => remove_cost (nth i cs dummy) 1)), (flat_to_rems (fun i => remove_cost (nth i cs dummy) 1)).
  rewrite (flat_from_inss (fun j => insert_cost (nth j ds dummy) 1)), (flat_to_inss (fun j => insert_cost (nth j ds dummy) 1)).
  rewrite !app_nil_r. cbn [app].
  assert (Hfrom : Permutation (map fst (ms_exact amk cs ds) ++ map fst (ms_pre amk cs ds) ++ map fst mt ++
                               filter (fun i => negb (nat_in i (map fst mt))) (ms_R amk cs ds)) (seq 0 (length cs))).
  { rewrite HpR. rewrite Permutation_app_swap_app. rewrite (from_exact_R amk cs ds). apply from_pre_fl. }
  assert (Hto : Permutation (map snd (ms_exact amk cs ds) ++ map snd (ms_pre amk cs ds) ++ map snd mt ++
                             filter (fun j => negb (nat_in j (map snd mt))) (ms_I amk cs ds)) (seq 0 (length ds))).
  { rewrite HpI. rewrite Permutation_app_swap_app. rewrite (to_exact_I amk cs ds Hcs Hds Kcs Kds). apply to_pre_tl. }
  rewrite (sort_nat_of_perm_seq _ _ Hfrom), (sort_nat_of_perm_seq _ _ Hto).
  rewrite !(proj2 (nat_list_eqb_eq _ _) eq_refl). cbn [andb].
  assert (Hsub : forall l subs, Forall2 (fun x y => ms_get M x = Some y) l subs ->
                 Forall (sub_ok (fun x y e => valid x y e = true) (MSet amk cs) (MSet amk' ds)) subs).
  { intros l subs HF. induction HF as [|ij s l r Hs _ IHF]; constructor; [|exact IHF].
    apply ms_get_sub in Hs. destruct Hs as [e [-> Hm]]. cbn [sub_ok children].
    apply mget_sub_matrix in Hm. destruct Hm as [c [d [Hc [Hd He]]]]. exists c, d. repeat split; [exact Hc|exact Hd|].
    pose proof (Forall_nth_error _ _ _ _ IH Hc) as Hpv.
    apply (Hpv O (pa ++ [fst ij]) (pb ++ [snd ij]) d e); [apply Hwcs; eapply nth_error_In; exact Hc|
                                                           apply Hwds; eapply nth_error_In; exact Hd|symmetry; exact He]. }
  apply (valid_all_spec (MSet amk cs) (MSet amk' ds)). rewrite !Forall_app. repeat split.
  - apply Forall_forall. intros s Hs. apply in_map_iff in Hs. destruct Hs as [[i j] [<- Hij]]. cbn [sub_ok children fst snd].
    apply in_partner in Hij. destruct Hij as [Hi Hf]. apply find_some in Hf. destruct Hf as [Hj _].
    apply fl_lt in Hi. apply tl_lt in Hj.
    exists (nth i cs dummy), (nth j ds dummy). repeat split; apply nth_error_nth_lt; assumption.
  - eapply Hsub; exact Epre.
  - eapply Hsub; exact Emts.
  - apply Forall_forall. intros s Hs. apply in_map_iff in Hs. destruct Hs as [i [<- _]]. exact I.
  - apply Forall_forall. intros s Hs. apply in_map_iff in Hs. destruct Hs as [i [<- _]]. exact I.
Qed.

(* ---------------------------------------------------------------- FixedKeyDictNode edits *)
Section FD.
  Variables (O : oracle) (pa pb : path) (a b : tree) (cs ds : list tree) (M : list (list res)).
  Definition fd_partner (i : nat) := find_index (fun d => node_eqb (kvp_key (nth i cs dummy)) (kvp_key d)) ds 0.
  Definition fd_shared := flat_map (fun i => match fd_partner i with Some j => [(i, j)] | None => [] end) (seq 0 (length cs)).
  Definition fd_unshared := filter (fun i => match fd_partner i with Some _ => false | None => true end) (seq 0 (length cs)).
  Definition fd_inserted :=
    filter (fun j => negb (existsb (fun c => node_eqb (kvp_key c) (kvp_key (nth j ds dummy))) cs)) (seq 0 (length ds)).
  Definition fd_order : option (list nat) :=
    if fixed_dict_removals_in_hash_order
    then match fd_unshared with
         | [] | [_] => Some fd_unshared
         | _ => match lookup pa pb (o_order O) with
                | Some ord => if nat_list_eqb (sort_nat ord) fd_unshared then Some ord else None
                | None => Some fd_unshared
                end
         end
    else Some fd_unshared.
  Definition fd_get (ij : nat * nat) :=
    if node_eqb (nth (fst ij) cs dummy) (nth (snd ij) ds dummy) then Some (SPair (fst ij) (snd ij) (EMatch 0))
    else match mget M (fst ij) (snd ij) with Some (OK e) => Some (SPair (fst ij) (snd ij) e) | _ => None end.

  Lemma fixed_dict_script_unfold :
    fixed_dict_script O pa pb a b cs ds M =
    match fd_order, all_some (map fd_get fd_shared) with
    | Some ord, Some sh =>
        let subs := sh ++ map (fun i => SRem i (remove_cost (nth i cs dummy) 1)) ord ++
                    map (fun j => SIns j (insert_cost (nth j ds dummy) 1)) fd_inserted in
        let total := zsum (map sub_cost subs) in
        if total <=? size a + 1 + size b then OK (EComp KFixedDict total subs) else Err ECap
    | None, _ => match lookup pa pb (o_order O) with None => Err ENoOracle | Some _ => Err EBadOracle end
    | _, None => Err ENoOracle
    end.
  Proof. reflexivity. Qed.

  Lemma fd_order_perm : forall ord, fd_order = Some ord -> Permutation ord fd_unshared.
  Proof.
    intros ord H. unfold fd_order in H.
    destruct fixed_dict_removals_in_hash_order; [|inversion H; reflexivity].
    destruct fd_unshared as [|x [|y l]] eqn:E; try (inversion H; reflexivity).
    destruct (lookup pa pb (o_order O)) as [o|]; [|inversion H; reflexivity].
    destruct (nat_list_eqb (sort_nat o) (x :: y :: l)) eqn:En; [|discriminate].
    inversion H; subst. apply nat_list_eqb_eq in En. rewrite <- En. apply sort_nat_perm.
  Qed.

  Lemma fd_from : Permutation (map fst fd_shared ++ fd_unshared) (seq 0 (length cs)).
  Proof.
    unfold fd_shared, fd_unshared. induction (seq 0 (length cs)) as [|i L IH]; cbn; [reflexivity|].
    destruct (fd_partner i) as [j|]; cbn.
    - apply perm_skip. exact IH.
    - rewrite <- Permutation_middle. apply perm_skip. exact IH.
  Qed.

  Lemma in_fd_shared : forall i j, In (i, j) fd_shared <-> (i < length cs)%nat /\ fd_partner i = Some j.
  Proof.
    intros i j. unfold fd_shared. rewrite in_flat_map. split.
    - intros [i' [Hi' Hin]]. destruct (fd_partner i') as [j'|] eqn:E; [|destruct Hin].
      destruct Hin as [Hin|[]]. inversion Hin; subst. apply in_seq in Hi'. split; [lia|exact E].
    - intros [Hi Hp]. exists i. split; [apply in_seq; lia|]. rewrite Hp. left. reflexivity.
  Qed.

  Hypothesis Hcs : Forall kvp_ok cs.
  Hypothesis Hds : Forall kvp_ok ds.
  Hypothesis Kcs : keys_distinct node_eqb cs = true.
  Hypothesis Kds : keys_distinct node_eqb ds = true.

  Lemma fd_partner_spec : forall i j, (i < length cs)%nat -> fd_partner i = Some j ->
    (j < length ds)%nat /\ key_eqb (nth i cs dummy) (nth j ds dummy) = true.
  Proof.
    intros i j Hi H. unfold fd_partner in H. apply find_index_some in H. destruct H as [_ [d [Hd [Hf _]]]].
    rewrite Nat.sub_0_r in Hd. assert (Hj : (j < length ds)%nat) by (apply nth_error_Some; congruence).
    split; [exact Hj|]. rewrite (nth_error_nth_lt ds j dummy Hj) in Hd. inversion Hd; subst. exact Hf.
  Qed.

  Lemma fd_partner_complete : forall i j, (i < length cs)%nat -> (j < length ds)%nat ->
    key_eqb (nth i cs dummy) (nth j ds dummy) = true -> fd_partner i = Some j.
  Proof.
    intros i j Hi Hj He. destruct (fd_partner i) as [j'|] eqn:E.
    - destruct (fd_partner_spec i j' Hi E) as [Hj' He'].
      destruct (cs_ok cs Hcs i Hi) as [Ci _]. destruct (ds_ok ds Hds j Hj) as [Dj Nj]. destruct (ds_ok ds Hds j' Hj') as [Dj' Nj'].
      f_equal. apply (keys_distinct_nth ds j' j _ _ Kds Hds Nj' Nj).
      apply (key_eqb_trans _ (nth i cs dummy)); auto. rewrite key_eqb_sym by assumption. exact He'.
    - unfold fd_partner in E. pose proof (find_index_none _ _ _ E (nth j ds dummy) (nth_In ds dummy Hj)) as Hn.
      unfold key_eqb in He. congruence.
  Qed.

  Lemma fd_to : Permutation (map snd fd_shared ++ fd_inserted) (seq 0 (length ds)).
  Proof.
    set (g := fun j => existsb (fun c => node_eqb (kvp_key c) (kvp_key (nth j ds dummy))) cs).
    assert (Hperm : Permutation (map snd fd_shared) (filter g (seq 0 (length ds)))).
    { apply NoDup_Permutation.
      - unfold fd_shared. generalize (seq_NoDup (length cs) 0).
        assert (Hlt : forall i, In i (seq 0 (length cs)) -> (i < length cs)%nat) by (intros i Hi; apply in_seq in Hi; lia).
        induction (seq 0 (length cs)) as [|i L IH]; intro HN; cbn; [constructor|]. inversion HN; subst.
        rewrite map_app. destruct (fd_partner i) as [j|] eqn:E; cbn.
        + constructor; [|apply IH; [intros; apply Hlt; right; assumption|assumption]].
          intro Hin. apply in_map_iff in Hin. destruct Hin as [[i' j'] [Hj Hin]]. cbn in Hj. subst j'.
          apply in_flat_map in Hin. destruct Hin as [i'' [Hi'' Hin]].
          destruct (fd_partner i'') as [j''|] eqn:E''; [|destruct Hin]. destruct Hin as [Hin|[]]. inversion Hin; subst i'' j''.
          assert (Hi : (i < length cs)%nat) by (apply Hlt; left; reflexivity).
          assert (Hi' : (i' < length cs)%nat) by (apply Hlt; right; exact Hi'').
          destruct (fd_partner_spec i j Hi E) as [Hj He]. destruct (fd_partner_spec i' j Hi' E'') as [_ He'].
          destruct (cs_ok cs Hcs i Hi) as [Ci Ni]. destruct (cs_ok cs Hcs i' Hi') as [Ci' Ni']. destruct (ds_ok ds Hds j Hj) as [Dj _].
          assert (i = i').
          { apply (keys_distinct_nth cs i i' _ _ Kcs Hcs Ni Ni'). apply (key_eqb_trans _ (nth j ds dummy)); auto.
            rewrite key_eqb_sym by assumption. exact He'. }
          subst. contradiction.
        + apply IH; [intros; apply Hlt; right; assumption|assumption].
      - apply NoDup_filter, seq_NoDup.
      - intro j. rewrite filter_In. split.
        + intro Hin. apply in_map_iff in Hin. destruct Hin as [[i j'] [Hj Hin]]. cbn in Hj. subst j'.
          apply in_fd_shared in Hin. destruct Hin as [Hi Hp]. destruct (fd_partner_spec i j Hi Hp) as [Hj He].
          split; [apply in_seq; lia|]. unfold g. apply existsb_exists. exists (nth i cs dummy). split; [apply nth_In; exact Hi|exact He].
        + intros [Hj Hg]. apply in_seq in Hj. unfold g in Hg. apply existsb_exists in Hg. destruct Hg as [c [Hc He]].
          apply (In_nth _ _ dummy) in Hc. destruct Hc as [i [Hi Hci]]. subst c.
          apply in_map_iff. exists (i, j). split; [reflexivity|]. apply in_fd_shared. split; [exact Hi|].
          apply fd_partner_complete; [exact Hi|lia|exact He]. }
    rewrite Hperm. unfold fd_inserted. apply (filter_partition_perm g).
  Qed.
End FD.

Lemma fd_get_sub : forall cs ds M ij s, fd_get cs ds M ij = Some s ->
  exists e, s = SPair (fst ij) (snd ij) e /\ (e = EMatch 0 \/ mget M (fst ij) (snd ij) = Some (OK e)).
Proof.
  intros cs ds M ij s H. unfold fd_get in H. destruct (node_eqb _ _); [inversion H; eauto|].
  destruct (mget M (fst ij) (snd ij)) as [[e|]|]; inversion H. eauto.
Qed.

Lemma fd_subs_from : forall cs ds M l subs, Forall2 (fun x y => fd_get cs ds M x = Some y) l subs -> flat_map from_idx subs = map fst l.
Proof.
  intros cs ds M l subs H. induction H as [|x y l r Hxy _ IH]; cbn; [reflexivity|].
  apply fd_get_sub in Hxy. destruct Hxy as [e [-> _]]. cbn. rewrite IH. reflexivity.
Qed.
Lemma fd_subs_to : forall cs ds M l subs, Forall2 (fun x y => fd_get cs ds M x = Some y) l subs -> flat_map to_idx subs = map snd l.
Proof.
  intros cs ds M l subs H. induction H as [|x y l r Hxy _ IH]; cbn; [reflexivity|].
  apply fd_get_sub in Hxy. destruct Hxy as [e [-> _]]. cbn. rewrite IH. reflexivity.
Qed.

Lemma fixed_dict_valid : forall O pa pb cs ds e,
  Forall Pvalid cs -> wf (FDict cs) = true -> wf (FDict ds) = true ->
  fixed_dict_script O pa pb (FDict cs) (FDict ds) cs ds (sub_matrix O pa pb cs ds) = OK e ->
  valid (FDict cs) (FDict ds) e = true.
Proof.
  intros O pa pb cs ds e IH Hwa Hwb H. cbn in Hwa, Hwb.
  apply andb_prop in Hwa as [Hwa Kcs]. apply andb_prop in Hwb as [Hwb Kds].
  destruct (wf_mset_parts _ Hwa) as [Hcs Hwcs]. destruct (wf_mset_parts _ Hwb) as [Hds Hwds].
  set (M := sub_matrix O pa pb cs ds) in *.
  rewrite fixed_dict_script_unfold in H.
  destruct (fd_order O pa pb cs ds) as [ord|] eqn:Eo; [|destruct (lookup pa pb (o_order O)); discriminate].
  destruct (all_some (map (fd_get cs ds M) (fd_shared cs ds))) as [sh|] eqn:Esh; [|discriminate].
  cbv zeta in H. destruct (_ <=? _); [|discriminate]. inversion H; subst e; clear H.
  apply all_some_map in Esh. apply fd_order_perm in Eo.
  cbn [valid kind_fits ordered_kind children].
  rewrite !flat_map_app'.
  rewrite (fd_subs_from _ _ _ _ _ Esh), (fd_subs_to _ _ _ _ _ Esh).
  rewrite (flat_from_rems (fun i => remove_cost (nth i cs dummy) 1)), (flat_to_rems (fun i => remove_cost (nth i cs dummy) 1)).
  rewrite (flat_from_inss (fun j => insert_cost (nth j ds dummy) 1)), (flat_to_inss (fun j => insert_cost (nth j ds dummy) 1)).
  rewrite !app_nil_r. cbn [app].
  assert (Hfrom : Permutation (map fst (fd_shared cs ds) ++ ord) (seq 0 (length cs))) by (rewrite Eo; apply fd_from).
  pose proof (fd_to cs ds Hcs Hds Kcs Kds) as Hto.
  rewrite (sort_nat_of_perm_seq _ _ Hfrom), (sort_nat_of_perm_seq _ _ Hto).
  rewrite !(proj2 (nat_list_eqb_eq _ _) eq_refl). cbn [andb].
  apply (valid_all_spec (FDict cs) (FDict ds)). rewrite !Forall_app. repeat split.
  - assert (Hlt : forall ij, In ij (fd_shared cs ds) -> (fst ij < length cs)%nat /\ (snd ij < length ds)%nat).
    { intros [i j] Hin. apply in_fd_shared in Hin. destruct Hin as [Hi Hp]. cbn.
      split; [exact Hi|]. apply (fd_partner_spec cs ds i j Hi Hp). }
    clear Hfrom Hto. induction Esh as [|ij s l r Hs _ IHF]; constructor; [|apply IHF; intros; apply Hlt; right; assumption].
    destruct (Hlt ij (or_introl eq_refl)) as [Hi Hj].
    apply fd_get_sub in Hs. destruct Hs as [e [-> [->|Hm]]]; cbn [sub_ok children].
    + exists (nth (fst ij) cs dummy), (nth (snd ij) ds dummy). repeat split; apply nth_error_nth_lt; assumption.
    + apply mget_sub_matrix in Hm. destruct Hm as [c [d [Hc [Hd He]]]]. exists c, d. repeat split; [exact Hc|exact Hd|].
      pose proof (Forall_nth_error _ _ _ _ IH Hc) as Hpv.
      apply (Hpv O (pa ++ [fst ij]) (pb ++ [snd ij]) d e); [apply Hwcs; eapply nth_error_In; exact Hc|
                                                             apply Hwds; eapply nth_error_In; exact Hd|symmetry; exact He].
  - apply Forall_forall. intros s Hs. apply in_map_iff in Hs. destruct Hs as [i [<- _]]. exact I.
  - apply Forall_forall. intros s Hs. apply in_map_iff in Hs. destruct Hs as [i [<- _]]. exact I.
Qed.

(* ---------------------------------------------------------------- C01 for the whole model *)
Theorem script_valid : forall a, Pvalid a.
Proof.
  apply tree_rect'.
  - intros x O pa pb b e _ _ H. cbn in H. apply leaf_script_valid. exact H.
  - intros ale alsl cs IH O pa pb b e Hwa Hwb H. cbn [script] in H.
    destruct b as [y|ale' alsl' ds|? ? ?|? ?|?];
      try (rewrite list_dispatch_not_list in H; inversion H; subst; reflexivity).
    fold (sub_matrix O pa pb cs ds) in H.
    destruct (list_dispatch_gen _ _ _ _ _ _ _ _) as [| |penalty|]; try (inversion H; subst; reflexivity).
    + destruct (fixed_len_subs cs ds _) as [subs|] eqn:Ef; [|discriminate]. inversion H; subst e.
      eapply fixed_len_valid; eauto.
    + eapply edit_dist_valid; eauto.
  - intros ake k v IHk IHv O pa pb b e Hwa Hwb H. cbn [script] in H.
    destruct b as [y|? ? ?|ake' k' v'|? ?|?]; try discriminate.
    destruct (ake || node_eqb k k'); [|inversion H; subst; reflexivity].
    cbn in Hwa, Hwb.
    apply andb_prop in Hwa as [Hwa Hwv]. apply andb_prop in Hwa as [Hwa _]. apply andb_prop in Hwa as [_ Hwk].
    apply andb_prop in Hwb as [Hwb Hwv']. apply andb_prop in Hwb as [Hwb _]. apply andb_prop in Hwb as [_ Hwk'].
    assert (Hke : forall e1, (if node_eqb k k' then OK (EMatch 0) else script O (pa ++ [0%nat]) (pb ++ [0%nat]) k k') = OK e1 ->
                  valid k k' e1 = true).
    { intros e1 He. destruct (node_eqb k k'); [inversion He; reflexivity|]. eapply IHk; eauto. }
    assert (Hve : forall e2, (if node_eqb v v' then OK (EMatch 0) else script O (pa ++ [1%nat]) (pb ++ [1%nat]) v v') = OK e2 ->
                  valid v v' e2 = true).
    { intros e2 He. destruct (node_eqb v v'); [inversion He; reflexivity|]. eapply IHv; eauto. }
    destruct (if node_eqb k k' then _ else _) as [e1|x1]; [|destruct (if node_eqb v v' then _ else _); discriminate].
    destruct (if node_eqb v v' then _ else _) as [e2|x2]; [|discriminate].
    inversion H; subst e. cbn. rewrite (Hke e1 eq_refl), (Hve e2 eq_refl). reflexivity.
  - intros amk cs IH O pa pb b e Hwa Hwb H. cbn [script] in H.
    destruct b as [y|? ? ?|? ? ?|amk' ds|?]; try (inversion H; subst; reflexivity).
    destruct ((match cs, ds with [], [] => true | _, _ => false end) || node_eqb (MSet amk cs) (MSet amk' ds));
      [inversion H; subst; reflexivity|].
    eapply multiset_valid; eauto.
  - intros cs IH O pa pb b e Hwa Hwb H. cbn [script] in H.
    destruct b as [y|? ? ?|? ? ?|? ?|ds]; try (inversion H; subst; reflexivity); try discriminate.
    destruct ((match cs, ds with [], [] => true | _, _ => false end) || _); [inversion H; subst; reflexivity|].
    eapply fixed_dict_valid; eauto.
Qed.
