(* C18 - proofs about the builder model (BuilderModel.v), for all finite object graphs. *)
From Coq Require Import String List Bool ZArith Lia Arith.
Require Import GT.PyBase GT.BuilderSpec GT.BuilderModel.
Import ListNotations.
Open Scope string_scope.
Open Scope list_scope.

(* ================================================================== 1. the machine computes the big-step result *)

Section Refinement.
  Variable b : bkind.
  Variable o : opts.
  Variable g : graph.

  Notation run := (run b o g).
  Notation expand := (expand b g).
  Notation build := (build b o g).
  Notation flagged := (flagged b o g).
  Notation kids := (kids b o g).
  Notation bigs := (bigs b o g).

  (* deliver a built child to the frame below (or return it when the stack is empty) *)
  Definition resume (w : list frame) (t : tree) (k : nat) : outcome :=
    match w with
    | [] => Built t
    | (n2, p2, q2) :: rest => run k ((n2, p2 ++ [t], q2) :: rest)
    end.

  (* a big-step result (r, n) for item c below `stack` is what the machine does, in n steps *)
  Definition sim (stack : list item) (c : item) (rn : outcome * nat) : Prop :=
    forall w, map fitem w = stack ->
      match fst rn with
      | Built t => forall k, run (snd rn + k) ((c, [], expand c) :: w) = resume w t k
      | Raised e => forall k, run (snd rn + k) ((c, [], expand c) :: w) = Raised e
      | OutOfFuel => True
      end.

  Lemma kids_sim : forall rec it anc,
    (forall c, sim (it :: anc) c (rec c)) ->
    forall cs proc w, map fitem w = anc ->
      match fst (kids rec (it :: anc) cs) with
      | inl ts => forall k, run (snd (kids rec (it :: anc) cs) + k) ((it, proc, cs) :: w)
                            = run k ((it, proc ++ ts, []) :: w)
      | inr (Raised e) => forall k, run (snd (kids rec (it :: anc) cs) + k) ((it, proc, cs) :: w) = Raised e
      | inr _ => True
      end.
  Proof.
    intros rec it anc Hrec cs.
    induction cs as [|c cs IH]; intros proc w Hw.
    - simpl. intros k. rewrite app_nil_r. reflexivity.
    - simpl kids.
      destruct (flagged c (it :: anc)) eqn:Hf.
      + destruct (ignore_cycles o) eqn:Hi.
        * specialize (IH (proc ++ [placeholder c]) w Hw).
          simpl fst. simpl snd.
          destruct (fst (kids rec (it :: anc) cs)) as [ts|r] eqn:Hk.
          -- intros k. simpl. unfold fitem at 1. simpl. rewrite Hw, Hf, Hi.
             rewrite IH. rewrite <- app_assoc. reflexivity.
          -- destruct r; auto. intros k. simpl. unfold fitem at 1. simpl. rewrite Hw, Hf, Hi. apply IH.
        * simpl. intros k. unfold fitem at 1. simpl. rewrite Hw, Hf, Hi. reflexivity.
      + pose proof (Hrec c) as Hc. unfold sim in Hc.
        destruct (rec c) as [r n1] eqn:Hr. simpl in Hc.
        destruct r as [t|e|].
        * specialize (Hc ((it, proc, cs) :: w)). simpl in Hc. unfold fitem at 1 in Hc. simpl in Hc.
          rewrite Hw in Hc. specialize (Hc eq_refl).
          specialize (IH (proc ++ [t]) w Hw).
          simpl fst. simpl snd.
          destruct (fst (kids rec (it :: anc) cs)) as [ts|r] eqn:Hk.
          -- intros k. simpl. unfold fitem at 1. simpl. rewrite Hw, Hf.
             rewrite <- Nat.add_assoc. rewrite Hc. rewrite IH. rewrite <- app_assoc. reflexivity.
          -- destruct r; auto. intros k. simpl. unfold fitem at 1. simpl. rewrite Hw, Hf.
             rewrite <- Nat.add_assoc. rewrite Hc. apply IH.
        * specialize (Hc ((it, proc, cs) :: w)). simpl in Hc. unfold fitem at 1 in Hc. simpl in Hc.
          rewrite Hw in Hc. specialize (Hc eq_refl).
          simpl. intros k. unfold fitem at 1. simpl. rewrite Hw, Hf. apply Hc.
        * simpl. exact I.
  Qed.

  Lemma kids_not_built : forall rec stack cs t, fst (kids rec stack cs) <> inr (Built t).
  Proof.
    intros rec stack cs t. induction cs as [|c cs IH]; simpl; try discriminate.
    destruct (flagged c stack).
    - destruct (ignore_cycles o); simpl; try discriminate.
      destruct (fst (kids rec stack cs)); congruence.
    - destruct (rec c) as [r n1]. destruct r; simpl; try discriminate.
      destruct (fst (kids rec stack cs)); congruence.
  Qed.

  Lemma bigs_sim : forall d anc it, sim anc it (bigs d anc it).
  Proof.
    induction d as [|d IH]; intros anc it.
    - unfold sim. simpl. auto.
    - unfold sim. intros w Hw. simpl bigs.
      pose proof (kids_sim (bigs d (it :: anc)) it anc (fun c => IH (it :: anc) c) (expand it) [] w Hw) as HK.
      destruct (fst (kids (bigs d (it :: anc)) (it :: anc) (expand it))) as [ts|r] eqn:Hk.
      + simpl fst. simpl snd.
        destruct (build it ts) as [t|e] eqn:Hb.
        * intros k. replace (S (snd (kids (bigs d (it :: anc)) (it :: anc) (expand it))) + k)
            with (snd (kids (bigs d (it :: anc)) (it :: anc) (expand it)) + S k) by lia.
          rewrite HK. simpl. rewrite Hb. destruct w as [|[[n2 p2] q2] rest]; reflexivity.
        * intros k. replace (S (snd (kids (bigs d (it :: anc)) (it :: anc) (expand it))) + k)
            with (snd (kids (bigs d (it :: anc)) (it :: anc) (expand it)) + S k) by lia.
          rewrite HK. simpl. rewrite Hb. reflexivity.
      + simpl fst. simpl snd. destruct r; auto.
        exfalso. eapply kids_not_built. exact Hk.
  Qed.

  (* more fuel does not change a result *)
  Lemma run_mono : forall f w r, run f w = r -> r <> OutOfFuel -> forall k, run (f + k) w = r.
  Proof.
    induction f as [|f IH]; intros w r H Hr k.
    - simpl in H. congruence.
    - simpl in H. simpl.
      destruct w as [|[[node proc] pend] rest]; try assumption; try (apply IH; assumption).
      destruct pend as [|c pend'].
      + destruct (build node proc); try assumption; try (apply IH; assumption). destruct rest as [|[[n2 p2] q2] rest']; try assumption; try (apply IH; assumption).
      + destruct (flagged c _); try assumption; try (apply IH; assumption).
        destruct (ignore_cycles o); try assumption; try (apply IH; assumption).
  Qed.

  Theorem machine_refines : forall d root r n,
    bigs d [] (IId root) = (r, n) -> r <> OutOfFuel ->
    forall fuel, n <= fuel -> run_builder b o g fuel root = r.
  Proof.
    intros d root r n H Hr fuel Hle.
    pose proof (bigs_sim d [] (IId root)) as S. unfold sim in S. rewrite H in S. simpl in S.
    specialize (S [] eq_refl).
    unfold run_builder. replace fuel with (n + (fuel - n)) by lia.
    destruct r; try congruence; apply S.
  Qed.

  (* ================================================================ 2. termination *)

  Definition fresh (it : item) (anc : list item) : bool := negb (existsb (fun a => item_is a it) anc).

  (* graph entries whose object is not on the stack *)
  Definition unvisited (anc : list item) : nat :=
    length (filter (fun e => fresh (IId (fst e)) anc) g).

  Lemma filter_length_lt : forall {A} (p q : A -> bool) (l : list A),
    (forall x, p x = true -> q x = true) ->
    (exists x, In x l /\ q x = true /\ p x = false) ->
    length (filter p l) < length (filter q l).
  Proof.
    intros A p q l Hpq. induction l as [|a l IH]; intros [x [Hin [Hq Hp]]].
    - destruct Hin.
    - assert (Hle : length (filter p l) <= length (filter q l)).
      { clear -Hpq. induction l as [|y l IHl]; simpl; auto.
        destruct (p y) eqn:E.
        - rewrite (Hpq _ E). simpl. lia.
        - destruct (q y); simpl; lia. }
      simpl. destruct Hin as [->|Hin].
      + rewrite Hq, Hp. simpl. lia.
      + specialize (IH (ex_intro _ x (conj Hin (conj Hq Hp)))).
        destruct (p a) eqn:E.
        * rewrite (Hpq _ E). simpl. lia.
        * destruct (q a); simpl; lia.
  Qed.

  Lemma lookup_In : forall (g0 : graph) i n, lookup g0 i = Some n -> In (i, n) g0.
  Proof.
    induction g0 as [|[j m] r IH]; simpl; intros i n H; try discriminate.
    destruct (Z.eqb i j) eqn:E.
    - apply Z.eqb_eq in E. inversion H. subst. auto.
    - right. auto.
  Qed.

  Lemma unvisited_lt : forall i n anc, lookup g i = Some n -> fresh (IId i) anc = true ->
    unvisited (IId i :: anc) < unvisited anc.
  Proof.
    intros i n anc Hl Hf. unfold unvisited. apply filter_length_lt.
    - intros x. unfold fresh. simpl. rewrite negb_orb. intros H. apply andb_prop in H. tauto.
    - exists (i, n). split; [apply lookup_In; auto|]. split; auto.
      unfold fresh. simpl. rewrite Z.eqb_refl. reflexivity.
  Qed.

  Lemma kids_no_oof : forall rec stack cs,
    (forall c, In c cs -> flagged c stack = false -> fst (rec c) <> OutOfFuel) ->
    fst (kids rec stack cs) <> inr OutOfFuel.
  Proof.
    intros rec stack cs. induction cs as [|c cs IH]; intros H; simpl.
    - discriminate.
    - destruct (flagged c stack) eqn:Hf.
      + destruct (ignore_cycles o); simpl; try discriminate.
        assert (IH' := IH (fun c' Hin => H c' (or_intror Hin))).
        destruct (fst (kids rec stack cs)); congruence.
      + pose proof (H c (or_introl eq_refl) Hf) as Hc.
        destruct (rec c) as [r n1]. simpl in Hc.
        destruct r; simpl; try congruence.
        assert (IH' := IH (fun c' Hin => H c' (or_intror Hin))).
        destruct (fst (kids rec stack cs)); congruence.
  Qed.

  Lemma bigs_of_kids : forall d anc it,
    fst (kids (bigs d (it :: anc)) (it :: anc) (expand it)) <> inr OutOfFuel ->
    fst (bigs (S d) anc it) <> OutOfFuel.
  Proof.
    intros d anc it H. simpl.
    destruct (fst (kids (bigs d (it :: anc)) (it :: anc) (expand it))) as [ts|r].
    - simpl. destruct (build it ts); discriminate.
    - simpl. congruence.
  Qed.

  Lemma leaf_big : forall c d anc, expand c = [] -> fst (bigs (S d) anc c) <> OutOfFuel.
  Proof.
    intros c d anc H. apply bigs_of_kids. rewrite H. simpl. discriminate.
  Qed.

  Lemma allleaves_big : forall c d anc, forallb (is_leaf_item b g) (expand c) = true ->
    fst (bigs (S (S d)) anc c) <> OutOfFuel.
  Proof.
    intros c d anc H. apply bigs_of_kids. apply kids_no_oof.
    intros gc Hin _. rewrite forallb_forall in H. specialize (H gc Hin).
    unfold is_leaf_item in H. apply leaf_big. destruct (expand gc); auto; discriminate.
  Qed.

  Lemma expand_nonempty_lookup : forall c, expand c <> [] -> exists i n, c = IId i /\ lookup g i = Some n.
  Proof.
    intros [i|s] H; simpl in H; try congruence.
    destruct (lookup g i) as [n|] eqn:E; try congruence. eauto.
  Qed.

  Lemma bigs_terminates_gen : check_cycles o = true ->
    forall m anc it, fresh it anc = true -> unvisited (it :: anc) <= m ->
    fst (bigs (m + 3) anc it) <> OutOfFuel.
  Proof.
    intros Hck. induction m as [|m IH]; intros anc it Hfr Hun.
    - replace (0 + 3) with (S 2) by lia. apply bigs_of_kids. apply kids_no_oof.
      intros c Hin Hfl. unfold BuilderModel.flagged in Hfl. rewrite Hck in Hfl.
      destruct (expand c) as [|gc gcs] eqn:He.
      + apply leaf_big; auto.
      + destruct (forallb (is_leaf_item b g) (expand c)) eqn:Hal.
        * apply allleaves_big; auto.
        * rewrite He in Hal. rewrite Hal in Hfl. simpl in Hfl.
          (* c is fresh in it :: anc, and in the graph: unvisited would be positive *)
          destruct (expand_nonempty_lookup c) as [i [n [-> Hl]]]; [rewrite He; discriminate|].
          assert (Hf : fresh (IId i) (it :: anc) = true) by (unfold fresh; simpl; simpl in Hfl; rewrite Hfl; reflexivity).
          pose proof (unvisited_lt i n (it :: anc) Hl Hf). lia.
    - replace (S m + 3) with (S (m + 3)) by lia. apply bigs_of_kids. apply kids_no_oof.
      intros c Hin Hfl. unfold BuilderModel.flagged in Hfl. rewrite Hck in Hfl.
      destruct (expand c) as [|gc gcs] eqn:He.
      + replace (m + 3) with (S (m + 2)) by lia. apply leaf_big; auto.
      + destruct (forallb (is_leaf_item b g) (expand c)) eqn:Hal.
        * replace (m + 3) with (S (S (m + 1))) by lia. apply allleaves_big; auto.
        * rewrite He in Hal. rewrite Hal in Hfl. simpl in Hfl.
          destruct (expand_nonempty_lookup c) as [i [n [-> Hl]]]; [rewrite He; discriminate|].
          assert (Hf : fresh (IId i) (it :: anc) = true) by (unfold fresh; simpl; simpl in Hfl; rewrite Hfl; reflexivity).
          pose proof (unvisited_lt i n (it :: anc) Hl Hf).
          apply IH; auto. lia.
  Qed.

  Lemma unvisited_le : forall anc, unvisited anc <= length g.
  Proof.
    intros anc. unfold unvisited. induction g as [|e r IH]; simpl; auto.
    destruct (fresh (IId (fst e)) anc); simpl; lia.
  Qed.

  (* with the cycle check on, the big-step run of ANY finite graph finishes within depth |g|+3 *)
  Lemma bigs_terminates : check_cycles o = true -> forall root,
    fst (bigs (big_depth g) [] (IId root)) <> OutOfFuel.
  Proof.
    intros Hck root. unfold big_depth. apply bigs_terminates_gen; auto.
    apply unvisited_le.
  Qed.

  (* (d) termination: with the cycle check on the machine halts on every finite graph, cyclic or not,
     within fuel_bound steps (the steps of the big-step run) *)
  Theorem machine_terminates : check_cycles o = true -> forall root fuel,
    fuel_bound b o g root <= fuel ->
    run_builder b o g fuel root = fst (bigs (big_depth g) [] (IId root))
    /\ run_builder b o g fuel root <> OutOfFuel.
  Proof.
    intros Hck root fuel Hle.
    pose proof (bigs_terminates Hck root) as Hne.
    unfold fuel_bound in Hle.
    destruct (bigs (big_depth g) [] (IId root)) as [r n] eqn:E. simpl in *.
    rewrite (machine_refines _ _ _ _ E Hne fuel Hle). auto.
  Qed.

  (* ================================================================ 2b. more depth does not change a finished big-step run *)

  Lemma kids_ext : forall rec rec' stack cs,
    (forall c, fst (rec c) <> OutOfFuel -> rec' c = rec c) ->
    fst (kids rec stack cs) <> inr OutOfFuel -> kids rec' stack cs = kids rec stack cs.
  Proof.
    intros rec rec' stack cs Hrec. induction cs as [|c cs IH]; simpl; intros H; auto.
    destruct (flagged c stack).
    - destruct (ignore_cycles o); auto. simpl in H. rewrite IH; auto.
      intros E. rewrite E in H. apply H. reflexivity.
    - destruct (rec c) as [r n1] eqn:Hr. destruct r as [t|e|].
      + rewrite (Hrec c) by (rewrite Hr; discriminate). rewrite Hr. simpl in H. rewrite IH; auto.
        intros E. rewrite E in H. apply H. reflexivity.
      + rewrite (Hrec c) by (rewrite Hr; discriminate). rewrite Hr. reflexivity.
      + exfalso. apply H. reflexivity.
  Qed.

  Lemma bigs_mono_S : forall d anc it, fst (bigs d anc it) <> OutOfFuel -> bigs (S d) anc it = bigs d anc it.
  Proof.
    induction d as [|d IH]; intros anc it H; [exfalso; apply H; reflexivity|].
    change (bigs (S (S d)) anc it) with
      (let rn := kids (bigs (S d) (it :: anc)) (it :: anc) (expand it) in
       match fst rn with
       | inl ts => (match build it ts with BOk t => Built t | BErr e => Raised e end, S (snd rn))
       | inr r => (r, snd rn)
       end).
    change (bigs (S d) anc it) with
      (let rn := kids (bigs d (it :: anc)) (it :: anc) (expand it) in
       match fst rn with
       | inl ts => (match build it ts with BOk t => Built t | BErr e => Raised e end, S (snd rn))
       | inr r => (r, snd rn)
       end) in H |- *.
    cbv zeta in *. rewrite (kids_ext (bigs d (it :: anc)) (bigs (S d) (it :: anc))); auto.
    intros E. rewrite E in H. apply H. reflexivity.
  Qed.

  Lemma bigs_mono : forall d d' anc it, d <= d' -> fst (bigs d anc it) <> OutOfFuel -> bigs d' anc it = bigs d anc it.
  Proof.
    intros d d' anc it Hle H. induction Hle; auto. rewrite bigs_mono_S; auto. rewrite IHHle. exact H.
  Qed.

  (* a big-step run that finishes at some depth <= big_depth is what the machine returns with exactly
     fuel_bound steps of fuel (the fuel the correspondence check gives the model) *)
  Lemma run_at_fuel_bound : forall d root r n, d <= big_depth g ->
    bigs d [] (IId root) = (r, n) -> r <> OutOfFuel ->
    run_builder b o g (fuel_bound b o g root) root = r.
  Proof.
    intros d root r n Hle H Hr.
    assert (E : bigs (big_depth g) [] (IId root) = (r, n)).
    { rewrite (bigs_mono d); auto. rewrite H. exact Hr. }
    unfold fuel_bound. rewrite E. simpl. eapply machine_refines; eauto.
  Qed.

End Refinement.

(* ================================================================== 3. generic list facts *)

Lemma map_opt_Forall2 : forall {A B} (f : A -> option B) l vs,
  map_opt f l = Some vs -> Forall2 (fun x v => f x = Some v) l vs.
Proof.
  induction l as [|x l IH]; simpl; intros vs H.
  - inversion H. constructor.
  - destruct (f x) eqn:E; try discriminate. destruct (map_opt f l) eqn:E2; try discriminate.
    inversion H. subst. constructor; auto.
Qed.

Lemma map_opt_In : forall {A B} (f : A -> option B) l vs x,
  map_opt f l = Some vs -> In x l -> exists y, f x = Some y.
Proof.
  induction l as [|a l IH]; simpl; intros vs x H Hin; [destruct Hin|].
  destruct (f a) eqn:E; try discriminate. destruct (map_opt f l) eqn:E2; try discriminate.
  destruct Hin as [->|Hin]; eauto.
Qed.

Lemma combine_fst_snd : forall {A B} (l : list (A * B)), combine (map fst l) (map snd l) = l.
Proof. induction l as [|[a c] l IH]; simpl; congruence. Qed.

Lemma dict_set_fresh : forall {K V} (eqb : K -> K -> bool) k (v : V) acc,
  forallb (fun k' => negb (eqb k' k)) (map fst acc) = true -> dict_set eqb k v acc = acc ++ [(k, v)].
Proof.
  induction acc as [|[k' v'] acc IH]; simpl; intros H; auto.
  apply andb_prop in H. destruct H as [H1 H2].
  destruct (eqb k' k); simpl in H1; try discriminate. rewrite IH; auto.
Qed.

Lemma pairwise_app_one : forall {A} (r : A -> A -> bool) l x,
  pairwise r (l ++ [x]) = pairwise r l && forallb (fun y => r y x) l.
Proof.
  induction l as [|a l IH]; simpl; intros x; auto.
  rewrite IH. rewrite forallb_app. simpl.
  destruct (forallb (r a) l), (r a x), (pairwise r l), (forallb (fun y => r y x) l); reflexivity.
Qed.

(* building a Python dict from pairs with pairwise unequal keys keeps them all, in order *)
Lemma dict_of_id : forall {K V} (eqb : K -> K -> bool) (l : list (K * V)),
  pairwise (fun a c => negb (eqb a c)) (map fst l) = true -> dict_of eqb l = l.
Proof.
  intros K V eqb l H. unfold dict_of.
  assert (G : forall (l acc : list (K * V)), pairwise (fun a c => negb (eqb a c)) (map fst (acc ++ l)) = true ->
              fold_left (fun acc kv => dict_set eqb (fst kv) (snd kv) acc) l acc = acc ++ l).
  { clear. induction l as [|[k v] l IH]; intros acc H; simpl.
    - rewrite app_nil_r. reflexivity.
    - assert (E : acc ++ (k, v) :: l = (acc ++ [(k, v)]) ++ l) by (rewrite <- app_assoc; reflexivity).
      rewrite E in H. rewrite dict_set_fresh.
      + rewrite IH; auto; try (rewrite <- app_assoc; reflexivity).
      + rewrite map_app in H. clear -H.
        revert H. generalize (map fst l) as tl. intros tl H.
        rewrite map_app in H. simpl in H.
        (* pairwise over (map fst acc ++ [k]) ++ tl *)
        assert (P : pairwise (fun a c => negb (eqb a c)) (map fst acc ++ [k]) = true).
        { clear -H. revert H. generalize (map fst acc ++ [k]) as l1. induction l1 as [|a l1 IH]; simpl; auto.
          intros H. apply andb_prop in H. destruct H as [H1 H2]. rewrite forallb_app in H1.
          apply andb_prop in H1. destruct H1 as [H1 _]. rewrite H1. simpl. auto. }
        rewrite pairwise_app_one in P. apply andb_prop in P. tauto. }
  apply (G l []). exact H.
Qed.

Lemma existsb_false_forall : forall {A} (p : A -> bool) l,
  (forall x, In x l -> p x = false) -> existsb p l = false.
Proof.
  induction l as [|a l IH]; simpl; intros H; auto.
  rewrite (H a (or_introl eq_refl)). simpl. auto.
Qed.

(* ================================================================== 4. acyclic graphs: no object reaches itself *)

Section Acyclic.
  Variable g : graph.

  Lemma unfold_edge : forall d i v j, unfold (S d) g i = Some v -> edge g i j ->
    exists vj, unfold d g j = Some vj.
  Proof.
    intros d i v j H [n [Hl Hin]]. simpl in H. rewrite Hl in H.
    destruct n as [s|l|l|l|kvs|cls fs]; simpl in Hin.
    - destruct Hin.
    - destruct (map_opt (unfold d g) l) eqn:E; try discriminate. eapply map_opt_In; eauto.
    - destruct (map_opt (unfold d g) l) eqn:E; try discriminate. eapply map_opt_In; eauto.
    - destruct (map_opt (unfold d g) l) eqn:E; try discriminate. eapply map_opt_In; eauto.
    - match type of H with option_map _ (map_opt ?f kvs) = _ => destruct (map_opt f kvs) eqn:E end; try discriminate.
      apply in_app_or in Hin. destruct Hin as [Hin|Hin]; apply in_map_iff in Hin; destruct Hin as [[k v'] [Hj Hin]];
        simpl in Hj; destruct (map_opt_In _ _ _ _ E Hin) as [y Hy]; simpl in Hy;
        destruct (unfold d g k) eqn:Ek; destruct (unfold d g v') eqn:Ev; try discriminate; rewrite <- Hj; eauto.
    - match type of H with option_map _ (map_opt ?f fs) = _ => destruct (map_opt f fs) eqn:E end; try discriminate.
      apply in_map_iff in Hin. destruct Hin as [[a v'] [Hj Hin]]. simpl in Hj.
      destruct (map_opt_In _ _ _ _ E Hin) as [y Hy]. simpl in Hy.
      destruct (unfold d g v') eqn:Ev; try discriminate; rewrite <- Hj; eauto.
  Qed.

  Lemma reach_unfold : forall j k, reach g j k -> forall d v, unfold d g j = Some v ->
    exists d' v', d' <= d /\ unfold d' g k = Some v'.
  Proof.
    induction 1 as [i|i j k He Hr IH]; intros d v H.
    - exists d, v. auto.
    - destruct d as [|d]; [discriminate|].
      destruct (unfold_edge _ _ _ _ H He) as [vj Hj].
      destruct (IH _ _ Hj) as [d' [v' [Hle Hk]]]. exists d', v'. split; auto.
  Qed.

  Lemma no_self_reach : forall d i v j, unfold d g i = Some v -> edge g i j -> reach g j i -> False.
  Proof.
    induction d as [d IH] using lt_wf_ind. intros i v j H He Hr.
    destruct d as [|d]; [discriminate|].
    destruct (unfold_edge _ _ _ _ H He) as [vj Hj].
    destruct (reach_unfold _ _ Hr _ _ Hj) as [d' [v' [Hle Hi]]].
    apply (IH d' ltac:(lia) i v' j Hi He Hr).
  Qed.

  (* an acyclic graph does not reach a cycle *)
  Lemma acyclic_no_cycle : forall root, acyclic g root -> ~ reaches_cycle g root.
  Proof.
    intros root [d [v H]] [c [e [Hrc [Hce Hec]]]].
    destruct (reach_unfold _ _ Hrc _ _ H) as [d' [v' [_ Hc]]].
    exact (no_self_reach _ _ _ _ Hc Hce Hec).
  Qed.

  (* ---------------------------------------------------------------- unfolding depth: |g|+1 always suffices *)

  (* one level of `unfold`, the recursive calls abstracted *)
  Definition unfold_step (rec : Z -> option pyval) (i : Z) : option pyval :=
    match lookup g i with
    | None => None
    | Some (PScalar s) => Some (VScalar s)
    | Some (PList l) | Some (PTuple l) => option_map VList (map_opt rec l)
    | Some (PSet l) => option_map VMSet (map_opt rec l)
    | Some (PDict kvs) =>
        option_map VDict
          (map_opt (fun kv => match rec (fst kv), rec (snd kv) with
                              | Some k, Some v => Some (k, v) | _, _ => None end) kvs)
    | Some (PObj cls fs) =>
        option_map (fun vs => VDict [(VScalar (SStr cls), VDict vs)])
          (map_opt (fun f => match rec (snd f) with
                             | Some v => Some (VScalar (SStr (fst f)), v) | None => None end) fs)
    end.

  Lemma unfold_S : forall d i, unfold (S d) g i = unfold_step (unfold d g) i.
  Proof. reflexivity. Qed.

  Lemma map_opt_mono_in : forall {A B} (f f' : A -> option B) l ys,
    (forall x y, In x l -> f x = Some y -> f' x = Some y) -> map_opt f l = Some ys -> map_opt f' l = Some ys.
  Proof.
    induction l as [|a l IH]; simpl; intros ys H E; auto.
    destruct (f a) eqn:Ea; try discriminate. destruct (map_opt f l) eqn:El; try discriminate.
    rewrite (H a b (or_introl eq_refl) Ea). rewrite (IH l0); auto.
  Qed.

  Lemma unfold_step_mono : forall rec rec' : Z -> option pyval,
    (forall j w, rec j = Some w -> rec' j = Some w) ->
    forall i v, unfold_step rec i = Some v -> unfold_step rec' i = Some v.
  Proof.
    intros rec rec' Hm i v. unfold unfold_step. destruct (lookup g i) as [[s|l|l|l|kvs|cls fs]|]; auto.
    - destruct (map_opt rec l) eqn:E; try discriminate. rewrite (map_opt_mono_in rec rec' l l0); auto.
    - destruct (map_opt rec l) eqn:E; try discriminate. rewrite (map_opt_mono_in rec rec' l l0); auto.
    - destruct (map_opt rec l) eqn:E; try discriminate. rewrite (map_opt_mono_in rec rec' l l0); auto.
    - match goal with |- option_map _ (map_opt ?f kvs) = _ -> _ => destruct (map_opt f kvs) eqn:E end; try discriminate.
      intros H. erewrite map_opt_mono_in; [exact H| |exact E].
      intros [k w] y _. simpl. destruct (rec k) eqn:Ek; try discriminate. destruct (rec w) eqn:Ew; try discriminate.
      rewrite (Hm _ _ Ek), (Hm _ _ Ew). auto.
    - match goal with |- option_map _ (map_opt ?f fs) = _ -> _ => destruct (map_opt f fs) eqn:E end; try discriminate.
      intros H. erewrite map_opt_mono_in; [exact H| |exact E].
      intros [a w] y _. simpl. destruct (rec w) eqn:Ew; try discriminate. rewrite (Hm _ _ Ew). auto.
  Qed.

  Lemma unfold_mono_S : forall d i v, unfold d g i = Some v -> unfold (S d) g i = Some v.
  Proof.
    induction d as [|d IH]; intros i v H; [discriminate|].
    rewrite unfold_S in *. eapply unfold_step_mono; [|exact H]. exact IH.
  Qed.

  Lemma unfold_mono : forall d d' i v, d <= d' -> unfold d g i = Some v -> unfold d' g i = Some v.
  Proof.
    intros d d' i v Hle H. induction Hle; auto. apply unfold_mono_S. auto.
  Qed.

  Lemma map_opt_ex_in : forall {A B} (f : A -> option B) l,
    (forall x, In x l -> exists y, f x = Some y) -> exists ys, map_opt f l = Some ys.
  Proof.
    induction l as [|a l IH]; simpl; intros H; eauto.
    destruct (H a (or_introl eq_refl)) as [y Hy]. rewrite Hy.
    destruct IH as [ys Hys]; [intros; apply H; auto|]. rewrite Hys. eauto.
  Qed.

  Lemma unfold_step_ex : forall (rec : Z -> option pyval) i nd, lookup g i = Some nd ->
    (forall j, In j (succs nd) -> exists w, rec j = Some w) -> exists v, unfold_step rec i = Some v.
  Proof.
    intros rec i nd Hl H. unfold unfold_step. rewrite Hl.
    destruct nd as [s|l|l|l|kvs|cls fs]; simpl in H; eauto.
    - destruct (map_opt_ex_in rec l H) as [ys ->]. simpl. eauto.
    - destruct (map_opt_ex_in rec l H) as [ys ->]. simpl. eauto.
    - destruct (map_opt_ex_in rec l H) as [ys ->]. simpl. eauto.
    - match goal with |- exists v, option_map _ (map_opt ?f kvs) = _ => destruct (map_opt_ex_in f kvs) as [ys ->] end;
        [|simpl; eauto].
      intros [k w] Hin. simpl.
      destruct (H k) as [yk ->]; [apply in_or_app; left; apply in_map_iff; exists (k, w); auto|].
      destruct (H w) as [yw ->]; [apply in_or_app; right; apply in_map_iff; exists (k, w); auto|]. eauto.
    - match goal with |- exists v, option_map _ (map_opt ?f fs) = _ => destruct (map_opt_ex_in f fs) as [ys ->] end;
        [|simpl; eauto].
      intros [a w] Hin. simpl.
      destruct (H w) as [yw ->]; [apply in_map_iff; exists (a, w); auto|]. eauto.
  Qed.

  Lemma reach_trans : forall a c e, reach g a c -> reach g c e -> reach g a e.
  Proof. induction 1; auto. intros. eapply reach_step; eauto. Qed.

  Lemma unfold_lookup : forall d i v, unfold d g i = Some v -> exists nd, lookup g i = Some nd.
  Proof.
    intros [|d] i v H; [discriminate|]. simpl in H. destruct (lookup g i); eauto. discriminate.
  Qed.

  (* pigeonhole: below distinct ancestors that all reach i, the unfolding of an acyclic i needs no more
     levels than there are graph entries off the ancestor path *)
  Lemma unfold_bound_gen : forall m i anc,
    acyclic g i ->
    (forall a, In a anc -> exists c, edge g a c /\ reach g c i) ->
    unvisited g (IId i :: map IId anc) <= m ->
    exists v, unfold (S m) g i = Some v.
  Proof.
    induction m as [|m IH]; intros i anc [d [v Hv]] Hanc Hun;
      destruct (unfold_lookup _ _ _ Hv) as [nd Hl]; rewrite unfold_S; apply (unfold_step_ex _ _ _ Hl); intros j Hj.
    all: assert (He : edge g i j) by (exists nd; auto).
    all: assert (Hfr : fresh (IId j) (IId i :: map IId anc) = true).
    1, 3: unfold fresh; simpl; apply negb_true_iff; apply orb_false_intro;
      [apply Z.eqb_neq; intros E; rewrite E in *; exact (no_self_reach _ _ _ _ Hv He (reach_refl _ _))
      |apply existsb_false_forall; intros x Hx; apply in_map_iff in Hx; destruct Hx as [a [<- Ha]]; simpl;
       apply Z.eqb_neq; intros E; rewrite E in *; destruct (Hanc _ Ha) as [c [Hjc Hci]];
       apply (no_self_reach _ _ _ _ Hv He); eapply reach_step; eauto].
    all: destruct d as [|d]; [discriminate|]; destruct (unfold_edge _ _ _ _ Hv He) as [vj Hvj];
      destruct (unfold_lookup _ _ _ Hvj) as [ndj Hlj];
      pose proof (unvisited_lt g j ndj _ Hlj Hfr) as Hlt.
    - lia.
    - apply (IH j (i :: anc)); [exists d, vj; auto| |simpl; lia].
      intros a [<-|Ha]; [exists j; split; auto; apply reach_refl|].
      destruct (Hanc _ Ha) as [c [Hac Hci]]. exists c. split; auto.
      eapply reach_trans; [exact Hci|]. eapply reach_step; [exact He|apply reach_refl].
  Qed.

  (* the depth used by the executable statement (BuilderSpec.unfold_depth) is complete *)
  Theorem unfold_depth_complete : forall d root v,
    unfold d g root = Some v -> unfold (unfold_depth g) g root = Some v.
  Proof.
    intros d root v H.
    destruct (unfold_bound_gen (unvisited g [IId root]) root []) as [w Hw];
      [exists d, v; auto|intros a []|simpl; lia|].
    assert (Hw' : unfold (unfold_depth g) g root = Some w).
    { eapply unfold_mono; [|exact Hw]. unfold unfold_depth. pose proof (unvisited_le g [IId root]). lia. }
    pose proof (unfold_mono _ (Nat.max d (unfold_depth g)) _ _ (Nat.le_max_l _ _) H) as E1.
    pose proof (unfold_mono _ (Nat.max d (unfold_depth g)) _ _ (Nat.le_max_r _ _) Hw') as E2.
    congruence.
  Qed.

End Acyclic.

(* ================================================================== 5. facts about dictionary trees with scalar keys *)

Definition tov (t : tree) : pyval := match to_obj t with ROk v => v | RErr _ => VScalar SNone end.

Definition leaf_of (s : scalar) : tree := TLeaf (leafkind_of s) s.

Lemma firstn_len_app : forall {A} (a c : list A), firstn (length a) (a ++ c) = a.
Proof. induction a; simpl; intros; congruence. Qed.

Lemma skipn_len_app : forall {A} (a c : list A), skipn (length a) (a ++ c) = c.
Proof. induction a; simpl; intros; auto. Qed.

Lemma div2_len_app : forall {A} (a c : list A), length a = length c -> Nat.div2 (length (a ++ c)) = length a.
Proof.
  intros A a c H. rewrite app_length, <- H.
  replace (length a + length a) with (2 * length a) by lia. apply Nat.div2_double.
Qed.

Lemma map_fst_combine : forall {A B} (a : list A) (c : list B), length a = length c -> map fst (combine a c) = a.
Proof. induction a as [|x a IH]; destruct c; simpl; intros H; try discriminate; auto. f_equal. auto. Qed.

Lemma map_combine : forall {A B C D} (f : A -> C) (h : B -> D) (a : list A) (c : list B),
  map (fun kv => (f (fst kv), h (snd kv))) (combine a c) = combine (map f a) (map h c).
Proof. induction a as [|x a IH]; destruct c; simpl; intros; auto. f_equal. auto. Qed.

Lemma pairwise_map : forall {A B} (r : B -> B -> bool) (f : A -> B) l,
  pairwise r (map f l) = pairwise (fun a c => r (f a) (f c)) l.
Proof.
  induction l as [|x l IH]; simpl; auto. rewrite IH.
  replace (forallb (r (f x)) (map f l)) with (forallb (fun c => r (f x) (f c)) l); auto.
  clear. induction l as [|y l IHl]; simpl; auto. rewrite IHl. reflexivity.
Qed.

Lemma pairwise_ext_in : forall {A} (r r' : A -> A -> bool) l,
  (forall a c, In a l -> In c l -> r a c = true -> r' a c = true) ->
  pairwise r l = true -> pairwise r' l = true.
Proof.
  induction l as [|x l IH]; simpl; intros H P; auto.
  apply andb_prop in P. destruct P as [P1 P2]. apply andb_true_intro. split.
  - rewrite forallb_forall in *. intros y Hy. apply H; auto.
  - apply IH; auto; intros a c Ha Hc; apply H; auto.
Qed.

Lemma all_ok_cons_inv : forall {A} (r : res A) rs l, all_ok (r :: rs) = ROk l ->
  exists x l', r = ROk x /\ all_ok rs = ROk l' /\ l = x :: l'.
Proof.
  intros A r rs l H. simpl in H. destruct r as [x|e]; try discriminate.
  destruct (all_ok rs) as [l'|e]; try discriminate. inversion H. eauto.
Qed.

Lemma all_ok_pairs : forall a c a' c',
  all_ok (map to_obj a) = ROk a' -> all_ok (map to_obj c) = ROk c' -> length a = length c ->
  all_ok (map (fun kv => pair_res (to_obj (fst kv)) (to_obj (snd kv))) (combine a c)) = ROk (combine a' c').
Proof.
  induction a as [|x a IH]; destruct c as [|y c]; simpl; intros a' c' Ha Hc Hl; try discriminate.
  - inversion Ha. reflexivity.
  - apply all_ok_cons_inv in Ha. destruct Ha as [x' [a'' [Hx [Ha ->]]]].
    apply all_ok_cons_inv in Hc. destruct Hc as [y' [c'' [Hy [Hc ->]]]].
    rewrite Hx, Hy. simpl. rewrite (IH c a'' c''); auto.
Qed.

Lemma existsb_combine_false : forall (a c : list tree),
  existsb has_placeholder a = false -> existsb has_placeholder c = false ->
  existsb (fun kv => has_placeholder (fst kv) || has_placeholder (snd kv)) (combine a c) = false.
Proof.
  induction a as [|x a IH]; destruct c as [|y c]; simpl; intros Ha Hc; auto.
  apply orb_false_elim in Ha. apply orb_false_elim in Hc. destruct Ha as [-> Ha]. destruct Hc as [-> Hc].
  simpl. auto.
Qed.

Lemma sort_raises_leaf_keys : forall items, (forall kv, In kv items -> is_leaf_tree (fst kv) = true) ->
  sort_raises items = false.
Proof.
  intros items H. unfold sort_raises. apply existsb_false_forall. intros kv Hin.
  rewrite H; auto. destruct items; simpl in *; auto.
Qed.

Lemma dict_tree_facts : forall (keys : list scalar) tvs vvs attrs,
  length tvs = length keys ->
  pairwise (fun a c => negb (scalar_pyeq a c)) keys = true ->
  all_ok (map to_obj tvs) = ROk (map tov tvs) -> map norm (map tov tvs) = vvs ->
  map copy tvs = tvs -> existsb has_placeholder tvs = false ->
  let items := combine (map leaf_of keys) tvs in
  dict_of tree_pyeq items = items /\ sort_raises items = false /\
  forall t, t = TDict attrs items \/ t = TFDict attrs items ->
    to_obj t = ROk (VDict (combine (map VScalar keys) (map tov tvs)))
    /\ norm (VDict (combine (map VScalar keys) (map tov tvs))) = VDict (combine (map VScalar keys) vvs)
    /\ copy t = t /\ has_placeholder t = false.
Proof.
  intros keys tvs vvs attrs Hlen Hpw Hto Hnorm Hcopy Hph items.
  assert (Hlen' : length (map leaf_of keys) = length tvs) by (rewrite map_length; auto).
  assert (Hd : dict_of tree_pyeq items = items).
  { apply dict_of_id. unfold items. rewrite map_fst_combine; auto. rewrite pairwise_map. exact Hpw. }
  assert (Hkeysto : all_ok (map to_obj (map leaf_of keys)) = ROk (map VScalar keys)).
  { clear. induction keys as [|s keys IH]; simpl; auto. rewrite IH. reflexivity. }
  assert (Hkeyscopy : map copy (map leaf_of keys) = map leaf_of keys).
  { clear. induction keys as [|s keys IH]; simpl; auto. rewrite IH. reflexivity. }
  assert (Hkeysph : existsb has_placeholder (map leaf_of keys) = false).
  { clear. induction keys as [|s keys IH]; simpl; auto. }
  assert (Hcp : map (fun kv => (copy (fst kv), copy (snd kv))) items = items).
  { unfold items. rewrite map_combine. rewrite Hkeyscopy, Hcopy. reflexivity. }
  assert (Hobj : all_ok (map (fun kv => pair_res (to_obj (fst kv)) (to_obj (snd kv))) items)
                 = ROk (combine (map VScalar keys) (map tov tvs))).
  { unfold items. apply all_ok_pairs; auto. }
  assert (Hhash : forallb (fun p : pyval * pyval => hashable (fst p)) (combine (map VScalar keys) (map tov tvs)) = true).
  { apply forallb_forall. intros [k v] Hin. apply in_combine_l in Hin. apply in_map_iff in Hin.
    destruct Hin as [s [<- _]]. reflexivity. }
  assert (Hd2 : dict_of py_val_eq (combine (map VScalar keys) (map tov tvs)) = combine (map VScalar keys) (map tov tvs)).
  { apply dict_of_id. rewrite map_fst_combine by (rewrite !map_length; auto). rewrite pairwise_map. exact Hpw. }
  split; [exact Hd|]. split.
  { apply sort_raises_leaf_keys. intros [k v] Hin. apply in_combine_l in Hin. apply in_map_iff in Hin.
    destruct Hin as [s [<- _]]. reflexivity. }
  intros t [-> | ->]; (split; [|split; [|split]]).
  - simpl. fold items. rewrite Hobj, Hhash, Hd2. reflexivity.
  - simpl. rewrite map_combine. f_equal. f_equal; auto.
    clear. induction keys as [|s keys IH]; simpl; congruence.
  - simpl. rewrite Hcp. reflexivity.
  - simpl. apply existsb_combine_false; auto.
  - simpl. fold items. rewrite Hobj, Hhash, Hd2. reflexivity.
  - simpl. rewrite map_combine. f_equal. f_equal; auto.
    clear. induction keys as [|s keys IH]; simpl; congruence.
  - simpl. rewrite Hcp, Hd. reflexivity.
  - simpl. apply existsb_combine_false; auto.
Qed.

(* ================================================================== 5b. a tree is Python-equal to itself *)

Section TreeInd.
  Variable P : tree -> Prop.
  Hypothesis Hleaf : forall k s, P (TLeaf k s).
  Hypothesis Hcyc : forall d i, P (TCyc d i).
  Hypothesis Hlist : forall l, Forall P l -> P (TList l).
  Hypothesis Hmset : forall l, Forall P l -> P (TMSet l).
  Hypothesis Hdict : forall a kvs, Forall (fun kv => P (fst kv) /\ P (snd kv)) kvs -> P (TDict a kvs).
  Hypothesis Hfdict : forall a kvs, Forall (fun kv => P (fst kv) /\ P (snd kv)) kvs -> P (TFDict a kvs).
  Hypothesis Hobj : forall n m, P n -> P m -> P (TObj n m).

  Fixpoint tree_ind' (t : tree) : P t :=
    match t with
    | TLeaf k s => Hleaf k s
    | TCyc d i => Hcyc d i
    | TList l => Hlist l ((fix go (l : list tree) : Forall P l :=
                             match l with [] => Forall_nil _ | x :: xs => Forall_cons _ (tree_ind' x) (go xs) end) l)
    | TMSet l => Hmset l ((fix go (l : list tree) : Forall P l :=
                             match l with [] => Forall_nil _ | x :: xs => Forall_cons _ (tree_ind' x) (go xs) end) l)
    | TDict a kvs => Hdict a kvs ((fix go (l : list (tree * tree)) : Forall (fun kv => P (fst kv) /\ P (snd kv)) l :=
                             match l with [] => Forall_nil _
                             | x :: xs => Forall_cons _ (conj (tree_ind' (fst x)) (tree_ind' (snd x))) (go xs) end) kvs)
    | TFDict a kvs => Hfdict a kvs ((fix go (l : list (tree * tree)) : Forall (fun kv => P (fst kv) /\ P (snd kv)) l :=
                             match l with [] => Forall_nil _
                             | x :: xs => Forall_cons _ (conj (tree_ind' (fst x)) (tree_ind' (snd x))) (go xs) end) kvs)
    | TObj n m => Hobj n m (tree_ind' n) (tree_ind' m)
    end.
End TreeInd.

Lemma scalar_pyeq_refl : forall s, scalar_pyeq s s = true.
Proof.
  intros [|b|z|r [z|]|x|x]; unfold scalar_pyeq; simpl; auto using Z.eqb_refl, String.eqb_refl.
Qed.

(* ------------------------------------------------------------------ a plain value is equal to itself *)

Section ValInd.
  Variable P : pyval -> Prop.
  Hypothesis Hscalar : forall s, P (VScalar s).
  Hypothesis Hleafnode : forall s, P (VLeafNode s).
  Hypothesis Hidhash : forall d i, P (VIdHash d i).
  Hypothesis Hvlist : forall l, Forall P l -> P (VList l).
  Hypothesis Hvmset : forall l, Forall P l -> P (VMSet l).
  Hypothesis Hvdict : forall kvs, Forall (fun kv => P (fst kv) /\ P (snd kv)) kvs -> P (VDict kvs).

  Fixpoint pyval_ind' (v : pyval) : P v :=
    match v with
    | VScalar s => Hscalar s
    | VLeafNode s => Hleafnode s
    | VIdHash d i => Hidhash d i
    | VList l => Hvlist l ((fix go (l : list pyval) : Forall P l :=
                              match l with [] => Forall_nil _ | x :: xs => Forall_cons _ (pyval_ind' x) (go xs) end) l)
    | VMSet l => Hvmset l ((fix go (l : list pyval) : Forall P l :=
                              match l with [] => Forall_nil _ | x :: xs => Forall_cons _ (pyval_ind' x) (go xs) end) l)
    | VDict kvs => Hvdict kvs ((fix go (l : list (pyval * pyval)) : Forall (fun kv => P (fst kv) /\ P (snd kv)) l :=
                              match l with [] => Forall_nil _
                              | x :: xs => Forall_cons _ (conj (pyval_ind' (fst x)) (pyval_ind' (snd x))) (go xs) end) kvs)
    end.
End ValInd.

Lemma scalar_eqb_refl : forall s, scalar_eqb s s = true.
Proof.
  intros [|b|z|r [z|]|x|x]; simpl; auto using Z.eqb_refl, String.eqb_refl, Bool.eqb_reflx.
  - rewrite String.eqb_refl, Z.eqb_refl. reflexivity.
  - rewrite String.eqb_refl. reflexivity.
Qed.

(* the executable comparison used by holds_C18 is reflexive: lists in order, multisets and dicts matched
   element by element *)
Lemma val_eqb_refl : forall seq, (forall s, seq s s = true) -> forall v, val_eqb seq v v = true.
Proof.
  intros seq Hseq.
  induction v as [s|s|d i|l IH|l IH|kvs IH] using pyval_ind'.
  - simpl. apply Hseq.
  - simpl. apply Hseq.
  - simpl. rewrite Nat.eqb_refl, Z.eqb_refl. reflexivity.
  - simpl. induction IH as [|x xs Hx HF IHl]; auto. rewrite Hx. simpl. auto.
  - simpl. induction IH as [|x xs Hx HF IHl]; auto. simpl. rewrite Hx. auto.
  - simpl. induction IH as [|[k v] xs [Hk Hv] HF IHl]; auto. simpl in *. rewrite Hk, Hv. simpl. auto.
Qed.

(* `norm read = original` (what the faithfulness theorem proves) makes the executable clause ClValue true *)
Lemma same_value_of_norm : forall read original, norm read = original -> same_value read original = true.
Proof. intros read original <-. unfold same_value. apply val_eqb_refl. exact scalar_eqb_refl. Qed.

(* every placeholder wraps its object once (what Builder.build_tree creates and copy() now preserves) *)
Fixpoint cyc0 (t : tree) : bool :=
  match t with
  | TLeaf _ _ => true
  | TCyc d _ => Nat.eqb d 0
  | TList l | TMSet l => forallb cyc0 l
  | TDict _ kvs | TFDict _ kvs => forallb (fun kv => cyc0 (fst kv) && cyc0 (snd kv)) kvs
  | TObj n m => cyc0 n && cyc0 m
  end.

(* such a tree is == to itself *)
Lemma tree_pyeq_refl : forall t, cyc0 t = true -> tree_pyeq t t = true.
Proof.
  induction t as [k s|d i|l IH|l IH|a kvs IH|a kvs IH|n m IHn IHm] using tree_ind'; intros H.
  - simpl. apply scalar_pyeq_refl.
  - simpl in *. rewrite H, Z.eqb_refl. reflexivity.
  - simpl in *. induction IH as [|x xs Hx HF IHl]; auto.
    simpl in H. apply andb_prop in H. destruct H as [H1 H2]. rewrite (Hx H1). simpl. auto.
  - simpl in *. induction IH as [|x xs Hx HF IHl]; auto.
    simpl in H. apply andb_prop in H. destruct H as [H1 H2]. simpl. rewrite (Hx H1). auto.
  - simpl in *. induction IH as [|[k v] xs [Hk Hv] HF IHl]; auto.
    simpl in H. apply andb_prop in H. destruct H as [H1 H2]. apply andb_prop in H1. destruct H1 as [H1 H1'].
    simpl in *. rewrite (Hk H1), (Hv H1'). simpl. auto.
  - simpl in *. induction IH as [|[k v] xs [Hk Hv] HF IHl]; auto.
    simpl in H. apply andb_prop in H. destruct H as [H1 H2]. apply andb_prop in H1. destruct H1 as [H1 H1'].
    simpl in *. rewrite (Hk H1), (Hv H1'). simpl. auto.
  - simpl in *. apply andb_prop in H. destruct H as [H1 H2]. rewrite (IHn H1), (IHm H2). reflexivity.
Qed.

Lemma no_placeholder_cyc0 : forall t, has_placeholder t = false -> cyc0 t = true.
Proof.
  induction t as [k s|d i|l IH|l IH|a kvs IH|a kvs IH|n m IHn IHm] using tree_ind'; intros H; simpl in *; auto.
  - discriminate.
  - induction IH as [|x xs Hx HF IHl]; auto. simpl in *. apply orb_false_elim in H. destruct H as [H1 H2].
    rewrite (Hx H1). simpl. auto.
  - induction IH as [|x xs Hx HF IHl]; auto. simpl in *. apply orb_false_elim in H. destruct H as [H1 H2].
    rewrite (Hx H1). simpl. auto.
  - induction IH as [|[k v] xs [Hk Hv] HF IHl]; auto. simpl in *. apply orb_false_elim in H. destruct H as [H1 H2].
    apply orb_false_elim in H1. destruct H1 as [H1 H1']. rewrite (Hk H1), (Hv H1'). simpl. auto.
  - induction IH as [|[k v] xs [Hk Hv] HF IHl]; auto. simpl in *. apply orb_false_elim in H. destruct H as [H1 H2].
    apply orb_false_elim in H1. destruct H1 as [H1 H1']. rewrite (Hk H1), (Hv H1'). simpl. auto.
  - apply orb_false_elim in H. destruct H as [H1 H2]. rewrite (IHn H1), (IHm H2). reflexivity.
Qed.

Lemma forallb_combine_cyc0 : forall (a c : list tree), forallb cyc0 a = true -> forallb cyc0 c = true ->
  forallb (fun kv => cyc0 (fst kv) && cyc0 (snd kv)) (combine a c) = true.
Proof.
  induction a as [|x a IH]; destruct c as [|y c]; simpl; intros Ha Hc; auto.
  apply andb_prop in Ha. apply andb_prop in Hc. destruct Ha as [-> Ha]. destruct Hc as [-> Hc]. simpl. auto.
Qed.

(* ================================================================== 5c. trees of hashable values: leaves and multisets of such *)

Fixpoint htree (t : tree) : bool :=
  match t with
  | TLeaf _ _ => true
  | TMSet l => forallb htree l
  | _ => false
  end.

Fixpoint hval (t : tree) : pyval :=
  match t with
  | TLeaf _ s => VScalar s
  | TMSet l => VMSet (map hval l)
  | _ => VScalar SNone
  end.

Lemma htree_hashable : forall t, htree t = true -> hashable (hval t) = true.
Proof. destruct t; simpl; try discriminate; auto. Qed.

Lemma htree_to_obj : forall t, htree t = true -> to_obj t = ROk (hval t).
Proof.
  induction t as [k s|d i|l IH|l IH|a kvs IH|a kvs IH|n m IHn IHm] using tree_ind'; simpl; intros H;
    try discriminate; auto.
  assert (E : all_ok (map to_obj l) = ROk (map hval l) /\ forallb hashable (map hval l) = true).
  { induction IH as [|x xs Hx HF IHl]; simpl; auto. simpl in H. apply andb_prop in H. destruct H as [H1 H2].
    destruct (IHl H2) as [E1 E2]. rewrite (Hx H1), E1, E2, (htree_hashable _ H1). auto. }
  destruct E as [E1 E2]. rewrite E1, E2. reflexivity.
Qed.

Lemma htree_norm : forall t, htree t = true -> norm (hval t) = hval t.
Proof.
  induction t as [k s|d i|l IH|l IH|a kvs IH|a kvs IH|n m IHn IHm] using tree_ind'; simpl; intros H;
    try discriminate; auto.
  f_equal. induction IH as [|x xs Hx HF IHl]; simpl; auto. simpl in H. apply andb_prop in H. destruct H as [H1 H2].
  rewrite (Hx H1), (IHl H2). reflexivity.
Qed.

Lemma htree_tov : forall t, htree t = true -> tov t = hval t.
Proof. intros t H. unfold tov. rewrite (htree_to_obj _ H). reflexivity. Qed.

Lemma remove_first_In : forall {A} (p : A -> bool) l r, remove_first p l = Some r -> forall y, In y r -> In y l.
Proof.
  induction l as [|x l IH]; simpl; intros r H y Hy; try discriminate.
  destruct (p x).
  - inversion H; subst. auto.
  - destruct (remove_first p l) eqn:E; try discriminate. inversion H; subst.
    destruct Hy as [->|Hy]; eauto.
Qed.

Lemma remove_first_map : forall {A B} (f : A -> B) (p : A -> bool) (q : B -> bool) l,
  (forall y, In y l -> p y = q (f y)) ->
  remove_first q (map f l) = option_map (map f) (remove_first p l).
Proof.
  induction l as [|x l IH]; simpl; intros H; auto.
  rewrite <- (H x (or_introl eq_refl)). destruct (p x); auto.
  rewrite IH by (intros; apply H; auto). destruct (remove_first p l); reflexivity.
Qed.

(* Python's == between two such trees is Python's == between their values *)
Lemma htree_pyeq : forall t1, htree t1 = true -> forall t2, htree t2 = true ->
  tree_pyeq t1 t2 = val_eqb scalar_pyeq (hval t1) (hval t2).
Proof.
  induction t1 as [k s|d i|l IH|l IH|a kvs IH|a kvs IH|n m IHn IHm] using tree_ind'; intros H1 t2 H2;
    destruct t2 as [k2 s2|d2 i2|l2|l2|a2 kvs2|a2 kvs2|n2 m2]; simpl in H1, H2; try discriminate; try reflexivity.
  simpl. revert l2 H2. induction IH as [|x xs Hx HF IHl]; intros l2 H2.
  - destruct l2; reflexivity.
  - simpl in H1. apply andb_prop in H1. destruct H1 as [Hx1 Hxs1]. simpl.
    rewrite (remove_first_map hval (tree_pyeq x) (val_eqb scalar_pyeq (hval x)) l2).
    + destruct (remove_first (tree_pyeq x) l2) as [r|] eqn:E; simpl; auto.
      apply IHl; auto. apply forallb_forall. intros y Hy. rewrite forallb_forall in H2.
      apply H2. eapply remove_first_In; eauto.
    + intros y Hy. apply Hx; auto. rewrite forallb_forall in H2. auto.
Qed.

(* ================================================================== 6. (a) acyclic graphs are built faithfully *)

Lemma no_obj_lookup : forall g, has_objects g = false -> forall i c f, lookup g i = Some (PObj c f) -> False.
Proof.
  intros g Hnoobj i c f H. apply lookup_In in H. unfold has_objects in Hnoobj.
  assert (E : existsb (fun e => is_obj_node (snd e)) g = true).
  { apply existsb_exists. exists (i, PObj c f). auto. }
  congruence.
Qed.

(* what PyObjBuilder.default_expander yields after the class name: attribute name, attribute value, ... *)
Definition attr_items (fs : list (string * Z)) : list item :=
  flat_map (fun f => [ILit (fst f); IId (snd f)]) fs.

Fixpoint interleave (names : list string) (ts : list tree) : list tree :=
  match names, ts with
  | a :: names', t :: ts' => leaf_of (SStr a) :: t :: interleave names' ts'
  | _, _ => []
  end.

Lemma pair_up_interleave : forall names ts, length names = length ts ->
  pair_up (interleave names ts) = combine (map leaf_of (map SStr names)) ts.
Proof.
  induction names as [|a names IH]; destruct ts as [|t ts]; simpl; intros H; try discriminate; auto.
  f_equal. apply IH. lia.
Qed.

Lemma obj_tree_facts : forall cls m v w,
  to_obj m = ROk v -> norm v = w -> copy m = m -> has_placeholder m = false ->
  let t := TObj (leaf_of (SStr cls)) m in
  to_obj t = ROk (VDict [(VLeafNode (SStr cls), v)])
  /\ norm (VDict [(VLeafNode (SStr cls), v)]) = VDict [(VScalar (SStr cls), w)]
  /\ copy t = t /\ has_placeholder t = false.
Proof.
  intros cls m v w H1 H2 H3 H4 t. unfold t. repeat split.
  - simpl. rewrite H1. reflexivity.
  - simpl. rewrite H2. reflexivity.
  - simpl. rewrite H3. reflexivity.
  - simpl. exact H4.
Qed.

(* facts read off the (scalar-keys) domain predicates *)
Lemma hash_dict : forall g, hashable_positions g = true -> forall i kvs, lookup g i = Some (PDict kvs) ->
  forallb (fun j => is_scalar_node (node_of g j)) (map fst kvs) = true.
Proof.
  intros g Hhash i kvs H. apply lookup_In in H. unfold hashable_positions in Hhash.
  rewrite forallb_forall in Hhash. specialize (Hhash _ H). simpl in Hhash.
  rewrite forallb_forall in *. intros j Hj. apply in_map_iff in Hj. destruct Hj as [kv [<- Hin]]. auto.
Qed.

Lemma wf_dict : forall g, hashable_positions g = true -> python_wf g = true ->
  forall i kvs, lookup g i = Some (PDict kvs) ->
  pairwise (fun a c => negb (scalar_pyeq a c)) (map (scalar_of g) (map fst kvs)) = true.
Proof.
  intros g Hhash Hwf i kvs H. pose proof (hash_dict g Hhash _ _ H) as Hs. apply lookup_In in H.
  unfold python_wf in Hwf. rewrite forallb_forall in Hwf. specialize (Hwf _ H). simpl in Hwf.
  rewrite pairwise_map. eapply pairwise_ext_in; [|exact Hwf].
  intros a c Ha Hc. rewrite forallb_forall in Hs. rewrite (Hs a Ha), (Hs c Hc). simpl. auto.
Qed.

Lemma wf_obj : forall g, python_wf g = true -> forall i cls fs, lookup g i = Some (PObj cls fs) ->
  pairwise (fun a c => negb (scalar_pyeq a c)) (map SStr (map fst fs)) = true.
Proof.
  intros g Hwf i cls fs H. apply lookup_In in H.
  unfold python_wf in Hwf. rewrite forallb_forall in Hwf. specialize (Hwf _ H). simpl in Hwf.
  rewrite pairwise_map. eapply pairwise_ext_in; [|exact Hwf]. intros a c _ _ E. exact E.
Qed.

Lemma sort_raises_tl_leaves : forall (tks tvs : list tree), forallb is_leaf_tree (tl tks) = true ->
  sort_raises (combine tks tvs) = false.
Proof.
  intros tks tvs H. unfold sort_raises. apply existsb_false_forall. intros [k v] Hin.
  destruct tks as [|t tks]; [destruct Hin|]. destruct tvs as [|t' tvs]; [destruct Hin|].
  simpl in *. apply in_combine_l in Hin. rewrite forallb_forall in H. rewrite (H _ Hin). reflexivity.
Qed.

(* a dictionary tree whose keys are trees of hashable values, pairwise unequal for Python *)
Lemma dict_tree_facts2 : forall (tks tvs : list tree) kvals vvs attrs,
  length tks = length tvs ->
  forallb htree tks = true -> map hval tks = kvals ->
  pairwise (fun a c => negb (val_eqb scalar_pyeq a c)) kvals = true ->
  map copy tks = tks -> existsb has_placeholder tks = false ->
  all_ok (map to_obj tvs) = ROk (map tov tvs) -> map norm (map tov tvs) = vvs ->
  map copy tvs = tvs -> existsb has_placeholder tvs = false ->
  let items := combine tks tvs in
  dict_of tree_pyeq items = items /\
  forall t, t = TDict attrs items \/ t = TFDict attrs items ->
    to_obj t = ROk (VDict (combine kvals (map tov tvs)))
    /\ norm (VDict (combine kvals (map tov tvs))) = VDict (combine kvals vvs)
    /\ copy t = t /\ has_placeholder t = false.
Proof.
  intros tks tvs kvals vvs attrs Hlen Hht Hkv Hpw Kcopy Kph Hto Hnorm Hcopy Hph items.
  assert (Hlk : length kvals = length tks) by (rewrite <- Hkv, map_length; reflexivity).
  assert (Hd : dict_of tree_pyeq items = items).
  { apply dict_of_id. unfold items. rewrite map_fst_combine; auto.
    rewrite <- Hkv in Hpw. rewrite pairwise_map in Hpw. eapply pairwise_ext_in; [|exact Hpw].
    intros a c Ha Hc E. rewrite forallb_forall in Hht. rewrite htree_pyeq; auto. }
  assert (Hkeysto : all_ok (map to_obj tks) = ROk kvals).
  { rewrite <- Hkv. clear -Hht. induction tks as [|t tks IH]; simpl; auto.
    simpl in Hht. apply andb_prop in Hht. destruct Hht as [H1 H2].
    rewrite (htree_to_obj _ H1), (IH H2). reflexivity. }
  assert (Hknorm : map norm kvals = kvals).
  { rewrite <- Hkv. clear -Hht. induction tks as [|t tks IH]; simpl; auto.
    simpl in Hht. apply andb_prop in Hht. destruct Hht as [H1 H2].
    rewrite (htree_norm _ H1), (IH H2). reflexivity. }
  assert (Hcp : map (fun kv => (copy (fst kv), copy (snd kv))) items = items).
  { unfold items. rewrite map_combine. rewrite Kcopy, Hcopy. reflexivity. }
  assert (Hobj : all_ok (map (fun kv => pair_res (to_obj (fst kv)) (to_obj (snd kv))) items)
                 = ROk (combine kvals (map tov tvs))).
  { unfold items. apply all_ok_pairs; auto. }
  assert (Hhash : forallb (fun p : pyval * pyval => hashable (fst p)) (combine kvals (map tov tvs)) = true).
  { apply forallb_forall. intros [k v] Hin. apply in_combine_l in Hin. rewrite <- Hkv in Hin.
    apply in_map_iff in Hin. destruct Hin as [t [<- Ht]]. rewrite forallb_forall in Hht.
    simpl. apply htree_hashable. auto. }
  assert (Hd2 : dict_of py_val_eq (combine kvals (map tov tvs)) = combine kvals (map tov tvs)).
  { apply dict_of_id. rewrite map_fst_combine by (rewrite map_length; lia). exact Hpw. }
  split; [exact Hd|].
  intros t [-> | ->]; (split; [|split; [|split]]).
  - simpl. fold items. rewrite Hobj, Hhash, Hd2. reflexivity.
  - simpl. rewrite map_combine. rewrite Hknorm, Hnorm. reflexivity.
  - simpl. rewrite Hcp. reflexivity.
  - simpl. apply existsb_combine_false; auto.
  - simpl. fold items. rewrite Hobj, Hhash, Hd2. reflexivity.
  - simpl. rewrite map_combine. rewrite Hknorm, Hnorm. reflexivity.
  - simpl. rewrite Hcp, Hd. reflexivity.
  - simpl. apply existsb_combine_false; auto.
Qed.

Section Faithful.
  Variable b : bkind.
  Variable o : opts.
  Variable g : graph.
  (* keys and set elements are scalars or sets; under the sorting strategies only the first key may be a set *)
  Hypothesis Hkeys : key_positions o g = true.
  Hypothesis Hwf : python_wf_keys g = true.
  (* custom objects only with pydiff's builder (BasicBuilder raises NotImplementedError on them) *)
  Hypothesis Hobjs : has_objects g = false \/ b = PyObjB.

  Notation bigs := (bigs b o g).
  Notation kids := (kids b o g).
  Notation flagged := (flagged b o g).

  (* what the induction carries about the tree t built for object i whose plain value is v *)
  Definition good (i : Z) (t : tree) (v : pyval) : Prop :=
    to_obj t = ROk (tov t) /\ norm (tov t) = v /\ copy t = t /\ has_placeholder t = false
    /\ lookup g i <> None
    /\ (forall s, lookup g i = Some (PScalar s) -> t = leaf_of s)
    /\ (is_scalar_node (node_of g i) || is_set_node (node_of g i) = true -> htree t = true).

  Inductive Built3 (stack : list item) (rec : item -> outcome * nat)
    : list Z -> list tree -> list pyval -> Prop :=
  | B3nil : Built3 stack rec [] [] []
  | B3cons : forall j t v l ts vs,
      flagged (IId j) stack = false -> (exists n, rec (IId j) = (Built t, n)) -> good j t v ->
      Built3 stack rec l ts vs -> Built3 stack rec (j :: l) (t :: ts) (v :: vs).

  Lemma B3_kids : forall stack rec l ts vs, Built3 stack rec l ts vs ->
    exists n, kids rec stack (map IId l) = (inl ts, n).
  Proof.
    induction 1 as [|j t v l ts vs Hf [n1 Hr] Hg HB [n2 IH]]; simpl; eauto.
    rewrite Hf, Hr, IH. simpl. eauto.
  Qed.

  Lemma B3_app : forall stack rec l1 ts1 vs1 l2 ts2 vs2,
    Built3 stack rec l1 ts1 vs1 -> Built3 stack rec l2 ts2 vs2 ->
    Built3 stack rec (l1 ++ l2) (ts1 ++ ts2) (vs1 ++ vs2).
  Proof. induction 1; simpl; intros; auto. constructor; auto. Qed.

  Lemma B3_facts : forall stack rec l ts vs, Built3 stack rec l ts vs ->
    all_ok (map to_obj ts) = ROk (map tov ts) /\ map norm (map tov ts) = vs /\ map copy ts = ts
    /\ existsb has_placeholder ts = false /\ length ts = length l /\ length vs = length l.
  Proof.
    induction 1 as [|j t v l ts vs Hf Hr Hg HB IH]; simpl.
    - repeat split; reflexivity.
    - destruct Hg as [G1 [G2 [G3 [G4 _]]]]. destruct IH as [I1 [I2 [I3 [I4 [I5 I6]]]]].
      rewrite G1, I1, G2, I2, G3, I3, G4, I4, I5, I6. repeat split; reflexivity.
  Qed.

  Lemma B3_htree : forall stack rec l ts vs, Built3 stack rec l ts vs ->
    forallb (fun j => is_scalar_node (node_of g j) || is_set_node (node_of g j)) l = true ->
    forallb htree ts = true.
  Proof.
    induction 1 as [|j t v l ts vs Hf Hr Hg HB IH]; simpl; intros H; auto.
    apply andb_prop in H. destruct H as [H1 H2].
    destruct Hg as [_ [_ [_ [_ [_ [_ G]]]]]]. rewrite (G H1). simpl. auto.
  Qed.

  Lemma B3_hashable : forall stack rec l ts vs, Built3 stack rec l ts vs ->
    forallb (fun j => is_scalar_node (node_of g j) || is_set_node (node_of g j)) l = true ->
    forallb hashable (map tov ts) = true.
  Proof.
    intros stack rec l ts vs HB H. pose proof (B3_htree _ _ _ _ _ HB H) as Hht. clear -Hht.
    induction ts as [|t ts IH]; simpl; auto. simpl in Hht. apply andb_prop in Hht. destruct Hht as [H1 H2].
    rewrite (htree_tov _ H1), (htree_hashable _ H1). simpl. auto.
  Qed.

  (* the values of such children are the hval of their trees *)
  Lemma B3_hval : forall stack rec l ts vs, Built3 stack rec l ts vs ->
    forallb (fun j => is_scalar_node (node_of g j) || is_set_node (node_of g j)) l = true ->
    map hval ts = vs.
  Proof.
    induction 1 as [|j t v l ts vs Hf Hr Hg HB IH]; simpl; intros H; auto.
    apply andb_prop in H. destruct H as [H1 H2]. rewrite (IH H2).
    destruct Hg as [_ [G2 [_ [_ [_ [_ G]]]]]]. specialize (G H1).
    rewrite (htree_tov _ G), (htree_norm _ G) in G2. rewrite G2. reflexivity.
  Qed.

  Lemma B3_tl : forall stack rec l ts vs, Built3 stack rec l ts vs -> Built3 stack rec (tl l) (tl ts) (tl vs).
  Proof. intros stack rec l ts vs HB. destruct HB; simpl; auto. constructor. Qed.

  Lemma B3_scalars : forall stack rec l ts vs, Built3 stack rec l ts vs ->
    forallb (fun j => is_scalar_node (node_of g j)) l = true ->
    ts = map leaf_of (map (scalar_of g) l) /\ vs = map VScalar (map (scalar_of g) l).
  Proof.
    induction 1 as [|j t v l ts vs Hf Hr Hg HB IH]; simpl; intros H; auto.
    apply andb_prop in H. destruct H as [H1 H2]. destruct (IH H2) as [-> ->].
    destruct Hg as [_ [G2 [_ [_ [G5 [G6 _]]]]]].
    unfold scalar_of. unfold node_of in *. destruct (lookup g j) as [n|] eqn:E; [|congruence].
    destruct n; simpl in H1; try discriminate.
    rewrite (G6 s eq_refl) in *. unfold tov in G2. simpl in G2. subst v. auto.
  Qed.

  Lemma B3_leaves : forall stack rec l ts vs, Built3 stack rec l ts vs ->
    forallb (fun j => is_scalar_node (node_of g j)) l = true -> forallb is_leaf_tree ts = true.
  Proof.
    intros stack rec l ts vs HB H. destruct (B3_scalars _ _ _ _ _ HB H) as [-> _].
    clear. induction (map (scalar_of g) l) as [|s ss IH]; simpl; auto.
  Qed.

  (* the str objects PyObjBuilder yields are leaves: never flagged, built in one step *)
  Lemma lit_flagged : forall s stack, flagged (ILit s) stack = false.
  Proof. reflexivity. Qed.

  Lemma lit_big : forall s d anc, bigs (S d) anc (ILit s) = (Built (leaf_of (SStr s)), 1).
  Proof. reflexivity. Qed.

  Lemma B3_kids_attrs : forall stack rec,
    (forall s, rec (ILit s) = (Built (leaf_of (SStr s)), 1)) ->
    forall fs ts vs, Built3 stack rec (map snd fs) ts vs ->
    exists n, kids rec stack (attr_items fs) = (inl (interleave (map fst fs) ts), n).
  Proof.
    intros stack rec Hlit. induction fs as [|[a j] fs IH]; intros ts vs HB; simpl map in HB; inversion HB; subst.
    - exists 0. reflexivity.
    - match goal with HB' : Built3 _ _ (map snd fs) _ _ |- _ => destruct (IH _ _ HB') as [n2 Hn2] end.
      match goal with Hr : exists n, rec (IId j) = _ |- _ => destruct Hr as [n1 Hr1] end.
      match goal with Hf : flagged (IId j) stack = false |- _ =>
        change (attr_items ((a, j) :: fs)) with (ILit a :: IId j :: attr_items fs);
        cbn [kids]; rewrite (lit_flagged a stack), Hlit, Hf, Hr1, Hn2 end.
      simpl. eauto.
  Qed.

  Lemma obj_unfold_split : forall d fs ps,
    map_opt (fun f : string * Z => match unfold d g (snd f) with
                                   | Some v => Some (VScalar (SStr (fst f)), v) | None => None end) fs = Some ps ->
    Forall2 (fun j v => unfold d g j = Some v) (map snd fs) (map snd ps)
    /\ map fst ps = map VScalar (map SStr (map fst fs)).
  Proof.
    induction fs as [|[a j] fs IH]; simpl; intros ps H.
    - inversion H. simpl. split; [constructor|reflexivity].
    - destruct (unfold d g j) eqn:Ej; try discriminate.
      match type of H with match ?m with _ => _ end = _ => destruct m eqn:E end; try discriminate.
      inversion H. subst. simpl. destruct (IH _ eq_refl) as [I1 I2]. split; [constructor; auto|congruence].
  Qed.

  Lemma bigs_built : forall d anc it ts n t,
    kids (bigs d (it :: anc)) (it :: anc) (expand b g it) = (inl ts, n) ->
    build b o g it ts = BOk t -> bigs (S d) anc it = (Built t, S n).
  Proof. intros d anc it ts n t Hk Hb. simpl. rewrite Hk. simpl. rewrite Hb. reflexivity. Qed.

  Lemma dict_unfold_split : forall d kvs ps,
    map_opt (fun kv => match unfold d g (fst kv), unfold d g (snd kv) with
                       | Some k, Some v => Some (k, v) | _, _ => None end) kvs = Some ps ->
    Forall2 (fun j v => unfold d g j = Some v) (map fst kvs) (map fst ps)
    /\ Forall2 (fun j v => unfold d g j = Some v) (map snd kvs) (map snd ps).
  Proof.
    induction kvs as [|[k v] kvs IH]; simpl; intros ps H.
    - inversion H. simpl. split; constructor.
    - destruct (unfold d g k) eqn:Ek; try discriminate. destruct (unfold d g v) eqn:Ev; try discriminate.
      match type of H with match ?m with _ => _ end = _ => destruct m eqn:E end; try discriminate.
      inversion H. subst. simpl. destruct (IH _ eq_refl). split; constructor; auto.
  Qed.

  Lemma wf_obj_keys : forall i cls fs, lookup g i = Some (PObj cls fs) ->
    pairwise (fun a c => negb (scalar_pyeq a c)) (map SStr (map fst fs)) = true.
  Proof.
    intros i cls fs H. apply lookup_In in H.
    unfold python_wf_keys in Hwf. rewrite forallb_forall in Hwf. specialize (Hwf _ H). simpl in Hwf.
    rewrite pairwise_map. eapply pairwise_ext_in; [|exact Hwf]. intros a c _ _ E. exact E.
  Qed.

  Lemma keys_dict : forall i kvs, lookup g i = Some (PDict kvs) ->
    forallb (fun j => is_scalar_node (node_of g j) || is_set_node (node_of g j)) (map fst kvs) = true
    /\ (allow_key_edits o = true ->
        forallb (fun j => is_scalar_node (node_of g j)) (tl (map fst kvs)) = true).
  Proof.
    intros i kvs H. apply lookup_In in H. unfold key_positions in Hkeys.
    rewrite forallb_forall in Hkeys. specialize (Hkeys _ H). simpl in Hkeys.
    apply andb_prop in Hkeys. destruct Hkeys as [K1 K2]. split.
    - rewrite forallb_forall in *. intros j Hj. apply in_map_iff in Hj. destruct Hj as [kv [<- Hin]]. auto.
    - intros Hake. rewrite Hake in K2. simpl in K2. destruct kvs as [|kv kvs]; simpl in *; auto.
      rewrite forallb_forall in *. intros j Hj. apply in_map_iff in Hj. destruct Hj as [kv' [<- Hin]]. auto.
  Qed.

  Lemma keys_set : forall i l, lookup g i = Some (PSet l) ->
    forallb (fun j => is_scalar_node (node_of g j) || is_set_node (node_of g j)) l = true.
  Proof.
    intros i l H. apply lookup_In in H. unfold key_positions in Hkeys.
    rewrite forallb_forall in Hkeys. exact (Hkeys _ H).
  Qed.

  Lemma wfk_dict : forall i kvs, lookup g i = Some (PDict kvs) ->
    pairwise (fun a c => negb (key_pyeq g a c)) (map fst kvs) = true.
  Proof.
    intros i kvs H. apply lookup_In in H.
    unfold python_wf_keys in Hwf. rewrite forallb_forall in Hwf. exact (Hwf _ H).
  Qed.

  (* Python-unequal key objects have Python-unequal values *)
  Lemma pairwise_unfold : forall d l vs, Forall2 (fun j v => unfold d g j = Some v) l vs ->
    pairwise (fun a c => negb (key_pyeq g a c)) l = true ->
    pairwise (fun x y => negb (val_eqb scalar_pyeq x y)) vs = true.
  Proof.
    intros d l vs HF. induction HF as [|j v l vs Hj HF IH]; simpl; intros H; auto.
    apply andb_prop in H. destruct H as [H1 H2]. rewrite (IH H2), andb_true_r.
    clear IH H2. induction HF as [|j' v' l vs Hj' HF IH]; simpl; auto.
    simpl in H1. apply andb_prop in H1. destruct H1 as [H1 H2]. rewrite (IH H2), andb_true_r.
    unfold key_pyeq in H1.
    pose proof (unfold_depth_complete g _ _ _ Hj) as E1. pose proof (unfold_depth_complete g _ _ _ Hj') as E2.
    unfold unfold_depth in E1, E2. rewrite E1, E2 in H1. exact H1.
  Qed.

  Lemma acyclic_builds : forall d i v, unfold d g i = Some v -> forall anc,
    (forall j, In (IId j) anc -> ~ reach g i j) ->
    exists t n, bigs (S d) anc (IId i) = (Built t, n) /\ good i t v.
  Proof.
    induction d as [|d IH]; intros i v H anc Hanc; [discriminate|].
    assert (CH : forall l vs, (forall j, In j l -> edge g i j) ->
                 Forall2 (fun j v => unfold d g j = Some v) l vs ->
                 exists ts, Built3 (IId i :: anc) (bigs (S d) (IId i :: anc)) l ts vs).
    { induction l as [|a l IHl]; intros vs He HF; inversion HF; subst.
      - exists []. constructor.
      - destruct (IHl l' (fun j Hj => He j (or_intror Hj)) H4) as [ts Hts].
        assert (Hea : edge g i a) by (apply He; left; reflexivity).
        destruct (IH a y H2 (IId i :: anc)) as [t [n [Hb Hg]]].
        { intros j [Hj|Hj] Hr.
          - injection Hj as <-. exact (no_self_reach g _ _ _ _ H Hea Hr).
          - apply (Hanc j Hj). eapply reach_step; eauto. }
        exists (t :: ts). constructor; eauto.
        unfold BuilderModel.flagged.
        assert (E : existsb (fun a0 => item_is a0 (IId a)) (IId i :: anc) = false).
        { simpl. apply orb_false_intro.
          - apply Z.eqb_neq. intros Heq. rewrite Heq in *. exact (no_self_reach g _ _ _ _ H Hea (reach_refl _ _)).
          - apply existsb_false_forall. intros [k|s] Hin; simpl; auto.
            apply Z.eqb_neq. intros Heq. rewrite Heq in *. apply (Hanc a Hin). eapply reach_step; [exact Hea|apply reach_refl]. }
        rewrite E. apply andb_false_r. }
    simpl in H. destruct (lookup g i) as [nd|] eqn:Hl; [|discriminate].
    destruct nd as [s|l|l|l|kvs|cls fs].
    - (* scalar *)
      inversion H; subst. exists (leaf_of s), 1.
      split.
      + apply bigs_built with (ts := []); unfold expand, build; rewrite Hl; reflexivity.
      + unfold good. rewrite Hl. unfold tov. simpl. repeat split; auto; try discriminate.
        intros s' E. inversion E. reflexivity.
    - (* list *)
      destruct (map_opt (unfold d g) l) as [vs|] eqn:E; [|discriminate]. inversion H; subst.
      destruct (CH l vs) as [ts HB]; [intros j Hj; exists (PList l); auto|apply map_opt_Forall2; auto|].
      destruct (B3_kids _ _ _ _ _ HB) as [n Hk]. destruct (B3_facts _ _ _ _ _ HB) as [F1 [F2 [F3 [F4 _]]]].
      exists (TList ts), (S n). split.
      + apply bigs_built with (ts := ts); unfold expand, build; rewrite Hl; auto.
      + assert (Hto : to_obj (TList ts) = ROk (VList (map tov ts))) by (simpl; rewrite F1; reflexivity).
        unfold good. unfold tov at 1 2. rewrite Hto. unfold node_of. rewrite Hl. simpl.
        rewrite F2, F3, F4. repeat split; auto; try discriminate.
    - (* tuple *)
      destruct (map_opt (unfold d g) l) as [vs|] eqn:E; [|discriminate]. inversion H; subst.
      destruct (CH l vs) as [ts HB]; [intros j Hj; exists (PTuple l); auto|apply map_opt_Forall2; auto|].
      destruct (B3_kids _ _ _ _ _ HB) as [n Hk]. destruct (B3_facts _ _ _ _ _ HB) as [F1 [F2 [F3 [F4 _]]]].
      exists (TList ts), (S n). split.
      + apply bigs_built with (ts := ts); unfold expand, build; rewrite Hl; auto.
      + assert (Hto : to_obj (TList ts) = ROk (VList (map tov ts))) by (simpl; rewrite F1; reflexivity).
        unfold good. unfold tov at 1 2. rewrite Hto. unfold node_of. rewrite Hl. simpl.
        rewrite F2, F3, F4. repeat split; auto; try discriminate.
    - (* set *)
      destruct (map_opt (unfold d g) l) as [vs|] eqn:E; [|discriminate]. inversion H; subst.
      destruct (CH l vs) as [ts HB]; [intros j Hj; exists (PSet l); auto|apply map_opt_Forall2; auto|].
      destruct (B3_kids _ _ _ _ _ HB) as [n Hk]. destruct (B3_facts _ _ _ _ _ HB) as [F1 [F2 [F3 [F4 _]]]].
      pose proof (B3_hashable _ _ _ _ _ HB (keys_set _ _ Hl)) as Hh.
      pose proof (B3_htree _ _ _ _ _ HB (keys_set _ _ Hl)) as Hht.
      exists (TMSet ts), (S n). split.
      + apply bigs_built with (ts := ts); unfold expand, build; rewrite Hl; auto.
      + assert (Hto : to_obj (TMSet ts) = ROk (VMSet (map tov ts))) by (simpl; rewrite F1, Hh; reflexivity).
        unfold good. unfold tov at 1 2. rewrite Hto. unfold node_of. rewrite Hl. simpl.
        rewrite F2, F3, F4. repeat split; auto; try discriminate.
    - (* dict: the keys are trees of hashable values (leaves, multisets) *)
      match type of H with option_map _ (map_opt ?f kvs) = _ => destruct (map_opt f kvs) as [ps|] eqn:E end;
        [|discriminate].
      inversion H; subst. destruct (dict_unfold_split _ _ _ E) as [FK FV].
      destruct (CH (map fst kvs) (map fst ps)) as [tks HK];
        [intros j Hj; exists (PDict kvs); split; auto; simpl; apply in_or_app; auto|auto|].
      destruct (CH (map snd kvs) (map snd ps)) as [tvs HV];
        [intros j Hj; exists (PDict kvs); split; auto; simpl; apply in_or_app; auto|auto|].
      pose proof (B3_app _ _ _ _ _ _ _ _ HK HV) as HB.
      destruct (B3_kids _ _ _ _ _ HB) as [n Hk]. rewrite map_app in Hk.
      destruct (B3_facts _ _ _ _ _ HK) as [_ [_ [K3 [K4 [K5 K6]]]]].
      destruct (B3_facts _ _ _ _ _ HV) as [V1 [V2 [V3 [V4 [V5 V6]]]]].
      destruct (keys_dict _ _ Hl) as [Hks Hsort].
      pose proof (B3_htree _ _ _ _ _ HK Hks) as Hht.
      pose proof (B3_hval _ _ _ _ _ HK Hks) as Hkv.
      pose proof (pairwise_unfold _ _ _ FK (wfk_dict _ _ Hl)) as Hpw.
      rewrite !map_length in *.
      assert (Hlen : length tks = length tvs) by lia.
      destruct (dict_tree_facts2 tks tvs (map fst ps) (map snd ps) false Hlen Hht Hkv Hpw K3 K4 V1 V2 V3 V4)
        as [D1 D3].
      assert (Hitems : combine (firstn (Nat.div2 (length (tks ++ tvs))) (tks ++ tvs))
                               (skipn (Nat.div2 (length (tks ++ tvs))) (tks ++ tvs))
                       = combine tks tvs).
      { rewrite div2_len_app by lia. rewrite firstn_len_app, skipn_len_app. reflexivity. }
      assert (Hps : ps = combine (map fst ps) (map snd ps)) by (symmetry; apply combine_fst_snd).
      destruct (allow_key_edits o) eqn:Hake.
      + assert (D2 : sort_raises (combine tks tvs) = false).
        { apply sort_raises_tl_leaves. eapply B3_leaves; [apply B3_tl; exact HK|]. apply Hsort. reflexivity. }
        destruct (D3 (TDict false (combine tks tvs)) (or_introl eq_refl)) as [T1 [T2 [T3 T4]]].
        exists (TDict false (combine tks tvs)), (S n). split.
        * apply bigs_built with (ts := tks ++ tvs); [unfold expand; rewrite Hl; exact Hk|].
          unfold build. rewrite Hl. rewrite Hitems, D1. unfold make_dict. rewrite Hake, D2. reflexivity.
        * unfold good. unfold tov at 1 2. rewrite T1. unfold node_of. rewrite Hl.
          rewrite T2, T3, T4, <- Hps. simpl. repeat split; auto; try discriminate.
      + destruct (D3 (TFDict false (combine tks tvs)) (or_intror eq_refl)) as [T1 [T2 [T3 T4]]].
        exists (TFDict false (combine tks tvs)), (S n). split.
        * apply bigs_built with (ts := tks ++ tvs); [unfold expand; rewrite Hl; exact Hk|].
          unfold build. rewrite Hl. rewrite Hitems, D1. unfold make_dict. rewrite Hake, D1. reflexivity.
        * unfold good. unfold tov at 1 2. rewrite T1. unfold node_of. rewrite Hl.
          rewrite T2, T3, T4, <- Hps. simpl. repeat split; auto; try discriminate.
    - (* instance of a class: only PyObjBuilder gets here *)
      destruct Hobjs as [Hno|Hb]; [exfalso; eapply no_obj_lookup; eauto|].
      match type of H with option_map _ (map_opt ?f fs) = _ => destruct (map_opt f fs) as [ps|] eqn:E end;
        [|discriminate].
      inversion H; subst. destruct (obj_unfold_split _ _ _ E) as [FV FK].
      destruct (CH (map snd fs) (map snd ps)) as [tvs HV];
        [intros j Hj; exists (PObj cls fs); split; auto|auto|].
      destruct (B3_kids_attrs _ _ (fun s => lit_big s d (IId i :: anc)) _ _ _ HV) as [n Hk].
      destruct (B3_facts _ _ _ _ _ HV) as [V1 [V2 [V3 [V4 [V5 V6]]]]].
      rewrite !map_length in *.
      set (keys := map SStr (map fst fs)) in *.
      assert (Hlen : length tvs = length keys) by (unfold keys; rewrite !map_length; auto).
      destruct (dict_tree_facts keys tvs (map snd ps) true Hlen (wf_obj_keys _ _ _ Hl) V1 V2 V3 V4) as [D1 [D2 D3]].
      assert (Hpu : pair_up (interleave (map fst fs) tvs) = combine (map leaf_of keys) tvs).
      { apply pair_up_interleave. rewrite map_length. auto. }
      assert (Hps : ps = combine (map VScalar keys) (map snd ps)).
      { rewrite <- FK. symmetry. apply combine_fst_snd. }
      assert (Hexp : expand b g (IId i) = ILit cls :: attr_items fs).
      { unfold expand. rewrite Hl, Hb. reflexivity. }
      assert (Hbuild : forall name rest, build b o g (IId i) (name :: rest)
                = match make_dict true o (dict_of tree_pyeq (pair_up rest)) with
                  | BOk m => BOk (TObj name m) | BErr e => BErr e end).
      { intros name rest. unfold build. rewrite Hl, Hb. reflexivity. }
      assert (Hkids : kids (bigs (S d) (IId i :: anc)) (IId i :: anc) (expand b g (IId i))
                      = (inl (leaf_of (SStr cls) :: interleave (map fst fs) tvs), S (1 + n))).
      { rewrite Hexp. cbn [kids]. rewrite (lit_flagged cls), (lit_big cls d (IId i :: anc)), Hk. reflexivity. }
      destruct (allow_key_edits o) eqn:Hake.
      + destruct (D3 (TDict true (combine (map leaf_of keys) tvs)) (or_introl eq_refl)) as [T1 [T2 [T3 T4]]].
        exists (TObj (leaf_of (SStr cls)) (TDict true (combine (map leaf_of keys) tvs))), (S (S (1 + n))). split.
        * apply bigs_built with (ts := leaf_of (SStr cls) :: interleave (map fst fs) tvs); [exact Hkids|].
          rewrite Hbuild. rewrite Hpu, D1. unfold make_dict. rewrite Hake, D2. reflexivity.
        * destruct (obj_tree_facts cls _ _ _ T1 T2 T3 T4) as [O1 [O2 [O3 O4]]].
          unfold good. unfold tov at 1 2. rewrite O1. unfold node_of. rewrite Hl.
          rewrite O2, O3, O4, <- Hps. simpl. repeat split; auto; try discriminate.
      + destruct (D3 (TFDict true (combine (map leaf_of keys) tvs)) (or_intror eq_refl)) as [T1 [T2 [T3 T4]]].
        exists (TObj (leaf_of (SStr cls)) (TFDict true (combine (map leaf_of keys) tvs))), (S (S (1 + n))). split.
        * apply bigs_built with (ts := leaf_of (SStr cls) :: interleave (map fst fs) tvs); [exact Hkids|].
          rewrite Hbuild. rewrite Hpu, D1. unfold make_dict. rewrite Hake, D1. reflexivity.
        * destruct (obj_tree_facts cls _ _ _ T1 T2 T3 T4) as [O1 [O2 [O3 O4]]].
          unfold good. unfold tov at 1 2. rewrite O1. unfold node_of. rewrite Hl.
          rewrite O2, O3, O4, <- Hps. simpl. repeat split; auto; try discriminate.
  Qed.

End Faithful.

(* ================================================================== 7. (c) cycles are detected *)

Lemma existsb_combine_keys : forall (keys : list scalar) (tvs : list tree), length tvs = length keys ->
  existsb (fun kv => has_placeholder (fst kv) || has_placeholder (snd kv)) (combine (map leaf_of keys) tvs)
  = existsb has_placeholder tvs.
Proof.
  induction keys as [|k keys IH]; destruct tvs as [|t tvs]; simpl; intros H; try discriminate; auto.
  rewrite IH by lia. reflexivity.
Qed.

(* a dictionary tree with scalar keys whose values are their own copies *)
Lemma dict_inv_facts : forall (keys : list scalar) tvs a,
  length tvs = length keys ->
  pairwise (fun x y => negb (scalar_pyeq x y)) keys = true ->
  map copy tvs = tvs -> forallb cyc0 tvs = true ->
  let items := combine (map leaf_of keys) tvs in
  dict_of tree_pyeq items = items /\ sort_raises items = false /\
  forall t, t = TDict a items \/ t = TFDict a items ->
    copy t = t /\ cyc0 t = true /\ has_placeholder t = existsb has_placeholder tvs.
Proof.
  intros keys tvs a Hlen Hpw Hcopy Hc0 items.
  assert (Hd : dict_of tree_pyeq items = items).
  { apply dict_of_id. unfold items. rewrite map_fst_combine by (rewrite map_length; auto).
    rewrite pairwise_map. exact Hpw. }
  assert (Hcp : map (fun kv => (copy (fst kv), copy (snd kv))) items = items).
  { unfold items. rewrite map_combine. rewrite Hcopy. f_equal.
    clear. induction keys as [|s keys IHk]; simpl; auto. rewrite IHk. reflexivity. }
  assert (H0 : forallb (fun kv => cyc0 (fst kv) && cyc0 (snd kv)) items = true).
  { apply forallb_combine_cyc0; auto. clear. induction keys as [|s keys IHk]; simpl; auto. }
  split; [exact Hd|]. split.
  { apply sort_raises_leaf_keys. intros [k v] Hin. apply in_combine_l in Hin. apply in_map_iff in Hin.
    destruct Hin as [s [<- _]]. reflexivity. }
  intros t [-> | ->]; (split; [|split]); simpl; auto; try (apply existsb_combine_keys; exact Hlen).
  - rewrite Hcp. reflexivity.
  - rewrite Hcp, Hd. reflexivity.
Qed.

Lemma obj_inv_facts : forall cls m, copy m = m -> cyc0 m = true ->
  let t := TObj (leaf_of (SStr cls)) m in
  copy t = t /\ cyc0 t = true /\ has_placeholder t = has_placeholder m.
Proof. intros cls m H1 H2 t. unfold t. simpl. rewrite H1, H2. auto. Qed.

Section Cyclic.
  Variable b : bkind.
  Variable o : opts.
  Variable g : graph.
  Hypothesis Hhash : hashable_positions g = true.
  Hypothesis Hwf : python_wf g = true.
  Hypothesis Hobjs : has_objects g = false \/ b = PyObjB.
  Hypothesis Hclosed : closed g = true.

  Notation bigs := (bigs b o g).
  Notation kids := (kids b o g).
  Notation flagged := (flagged b o g).

  Lemma kids_inv : forall rec stack cs ts n, kids rec stack cs = (inl ts, n) ->
    Forall2 (fun c t => (flagged c stack = true /\ ignore_cycles o = true /\ t = placeholder c)
                        \/ (flagged c stack = false /\ exists m, rec c = (Built t, m))) cs ts.
  Proof.
    intros rec stack. induction cs as [|c cs IH]; simpl; intros ts n H.
    - inversion H. constructor.
    - destruct (flagged c stack) eqn:Hf.
      + destruct (ignore_cycles o) eqn:Hi; [|discriminate].
        destruct (kids rec stack cs) as [[ts'|r] n'] eqn:Hk; simpl in H; inversion H; subst.
        constructor; eauto.
      + destruct (rec c) as [r m] eqn:Hr. destruct r as [t|e|]; try discriminate.
        destruct (kids rec stack cs) as [[ts'|r] n'] eqn:Hk; simpl in H; inversion H; subst.
        constructor; eauto.
  Qed.

  Lemma kids_err : forall rec stack cs e n, kids rec stack cs = (inr (Raised e), n) ->
    (e = ECycle /\ ignore_cycles o = false) \/ exists c m, In c cs /\ rec c = (Raised e, m).
  Proof.
    intros rec stack. induction cs as [|c cs IH]; simpl; intros e n H; [discriminate|].
    destruct (flagged c stack) eqn:Hf.
    - destruct (ignore_cycles o) eqn:Hi.
      + destruct (kids rec stack cs) as [[ts'|r] n'] eqn:Hk; simpl in H; inversion H; subst.
        destruct (IH _ _ eq_refl) as [?|[c' [m [Hin Hc]]]]; [left; auto|right; exists c', m; auto].
      + inversion H. left. auto.
    - destruct (rec c) as [r m] eqn:Hr. destruct r as [t|e'|].
      + destruct (kids rec stack cs) as [[ts'|r] n'] eqn:Hk; simpl in H; inversion H; subst.
        destruct (IH _ _ eq_refl) as [?|[c' [m' [Hin Hc]]]]; [left; auto|right; exists c', m'; auto].
      + inversion H; subst. right. exists c, m. auto.
      + discriminate.
  Qed.

  Lemma scalar_child : forall k s, lookup g k = Some (PScalar s) ->
    forall stack, flagged (IId k) stack = false.
  Proof. intros k s H stack. unfold BuilderModel.flagged, expand. rewrite H. reflexivity. Qed.

  Lemma scalar_big : forall k s, lookup g k = Some (PScalar s) ->
    forall d anc, bigs (S d) anc (IId k) = (Built (leaf_of s), 1).
  Proof.
    intros k s H d anc. apply bigs_built with (ts := []); unfold expand, build; rewrite H; reflexivity.
  Qed.

  Lemma closed_succ : forall i nd j, lookup g i = Some nd -> In j (succs nd) -> lookup g j <> None.
  Proof.
    intros i nd j Hl Hin. apply lookup_In in Hl. unfold closed in Hclosed.
    rewrite forallb_forall in Hclosed. specialize (Hclosed _ Hl). simpl in Hclosed.
    rewrite forallb_forall in Hclosed. specialize (Hclosed _ Hin).
    destruct (lookup g j); [discriminate|discriminate].
  Qed.

  Lemma map_opt_all : forall {A B} (f : A -> option B) l,
    (forall x, In x l -> exists y, f x = Some y) -> exists ys, map_opt f l = Some ys.
  Proof.
    induction l as [|a l IH]; simpl; intros H; eauto.
    destruct (H a (or_introl eq_refl)) as [y Hy]. rewrite Hy.
    destruct IH as [ys Hys]; [intros; apply H; auto|]. rewrite Hys. eauto.
  Qed.

  Lemma F2_length : forall {A B} (R : A -> B -> Prop) l l', Forall2 R l l' -> length l = length l'.
  Proof. induction 1; simpl; congruence. Qed.

  Lemma F2_in_l : forall {A B} (R : A -> B -> Prop) l l' x, Forall2 R l l' -> In x l -> exists y, In y l' /\ R x y.
  Proof.
    induction 1 as [|a c l l' Hac HF IH]; intros Hin; [destruct Hin|].
    destruct Hin as [->|Hin]; [exists c; simpl; auto|].
    destruct (IH Hin) as [y [Hy Hr]]. exists y. simpl. auto.
  Qed.

  Lemma existsb_combine_inv : forall (a c : list tree), length a = length c ->
    existsb (fun kv => has_placeholder (fst kv) || has_placeholder (snd kv)) (combine a c) = false ->
    existsb has_placeholder c = false.
  Proof.
    induction a as [|x a IH]; destruct c as [|y c]; simpl; intros Hl H; try discriminate; auto.
    apply orb_false_elim in H. destruct H as [H1 H2]. apply orb_false_elim in H1. destruct H1 as [_ H1].
    rewrite H1. simpl. apply IH; auto.
  Qed.

  (* how a child was delivered: as a placeholder, or built by the recursive run *)
  Definition childR (d : nat) (stack : list item) (c : item) (t : tree) : Prop :=
    (flagged c stack = true /\ ignore_cycles o = true /\ t = placeholder c)
    \/ (flagged c stack = false /\ exists m, bigs d stack c = (Built t, m)).

  Lemma lit_childR : forall d stack s t, childR d stack (ILit s) t -> t = leaf_of (SStr s).
  Proof.
    intros d stack s t [[Hf _]|[_ [m Hm]]]; [discriminate|].
    destruct d as [|d]; simpl in Hm; inversion Hm. reflexivity.
  Qed.

  Lemma lit_not_raised : forall d stack s e m, bigs d stack (ILit s) <> (Raised e, m).
  Proof. intros [|d] stack s e m; simpl; discriminate. Qed.

  Lemma attrs_childR : forall d stack fs rest, Forall2 (childR d stack) (attr_items fs) rest ->
    exists tvs, rest = interleave (map fst fs) tvs /\ Forall2 (childR d stack) (map IId (map snd fs)) tvs.
  Proof.
    intros d stack. induction fs as [|[a j] fs IH]; intros rest HF.
    - inversion HF. exists []. split; [reflexivity|constructor].
    - change (attr_items ((a, j) :: fs)) with (ILit a :: IId j :: attr_items fs) in HF.
      inversion HF as [|x1 t1 l1 r1 Ha HF1]; subst. inversion HF1 as [|x2 t2 l2 r2 Hj HF2]; subst.
      destruct (IH _ HF2) as [tvs [-> HV]]. apply lit_childR in Ha. subst t1.
      exists (t2 :: tvs). split; [reflexivity|]. simpl. constructor; auto.
  Qed.

  Lemma obj_unfold_join : forall d fs vs, map_opt (unfold d g) (map snd fs) = Some vs ->
    exists ps, map_opt (fun f : string * Z => match unfold d g (snd f) with
                                              | Some v => Some (VScalar (SStr (fst f)), v) | None => None end) fs = Some ps.
  Proof.
    induction fs as [|[a j] fs IH]; simpl; intros vs H; eauto.
    destruct (unfold d g j); try discriminate. destruct (map_opt (unfold d g) (map snd fs)) eqn:E; try discriminate.
    destruct (IH _ eq_refl) as [ps Hps]. rewrite Hps. eauto.
  Qed.

  (* what a finished big-step run can be, in the domain: a tree without placeholder only for an object
     with a finite unfolding; placeholders only when cycles are ignored; the tree is its own copy (also with
     placeholders, since the repair of CyclicReference.copy_from); no exception but the cycle error *)
  Definition inv_result (d : nat) (i : Z) (r : outcome) : Prop :=
    match r with
    | Built t => (has_placeholder t = false -> exists v, unfold d g i = Some v)
                 /\ (ignore_cycles o = false -> has_placeholder t = false)
                 /\ copy t = t /\ cyc0 t = true
    | Raised e => e = ECycle /\ ignore_cycles o = false
    | OutOfFuel => True
    end.

  Lemma bigs_domain_inv : forall d anc i r n, lookup g i <> None ->
    bigs d anc (IId i) = (r, n) -> inv_result d i r.
  Proof.
    induction d as [|d IH]; intros anc i r n Hdef H.
    - simpl in H. inversion H. exact I.
    - (* children given by ids *)
      assert (CH : forall l ts, (forall j, In j l -> lookup g j <> None) ->
                Forall2 (fun c t => (flagged c (IId i :: anc) = true /\ ignore_cycles o = true /\ t = placeholder c)
                                    \/ (flagged c (IId i :: anc) = false
                                        /\ exists m, bigs d (IId i :: anc) c = (Built t, m))) (map IId l) ts ->
                (existsb has_placeholder ts = false -> exists vs, map_opt (unfold d g) l = Some vs)
                /\ (ignore_cycles o = false -> existsb has_placeholder ts = false)
                /\ map copy ts = ts /\ forallb cyc0 ts = true).
      { induction l as [|a l IHl]; intros ts Hd HF; simpl in HF; inversion HF; subst.
        - repeat split; simpl; eauto.
        - destruct (IHl l' (fun j Hj => Hd j (or_intror Hj)) H4) as [I1 [I2 [I3 I4]]].
          destruct H2 as [[Hf [Hi ->]]|[Hf [m Hm]]].
          + split; [|split; [|split]]; simpl; [discriminate|congruence|rewrite I3; reflexivity|exact I4].
          + pose proof (IH _ _ _ _ (Hd a (or_introl eq_refl)) Hm) as [J1 [J2 [J3 J4]]]. split; [|split; [|split]].
            * simpl. intros E. apply orb_false_elim in E. destruct E as [E1 E2].
              destruct (J1 E1) as [v Hv]. destruct (I1 E2) as [vs Hvs]. rewrite Hv, Hvs. eauto.
            * simpl. intros Hi. rewrite (J2 Hi), (I2 Hi). reflexivity.
            * simpl. rewrite J3, I3. reflexivity.
            * simpl. rewrite J4, I4. reflexivity. }
      change (bigs (S d) anc (IId i)) with
        (let rn := kids (bigs d (IId i :: anc)) (IId i :: anc) (expand b g (IId i)) in
         match fst rn with
         | inl ts => (match build b o g (IId i) ts with BOk t => Built t | BErr e => Raised e end, S (snd rn))
         | inr r => (r, snd rn)
         end) in H.
      destruct (kids (bigs d (IId i :: anc)) (IId i :: anc) (expand b g (IId i))) as [[ts|r'] n'] eqn:Hk;
        cbv zeta in H; simpl fst in H; simpl snd in H.
      + (* all children delivered *)
        apply kids_inv in Hk. unfold expand in Hk. unfold build in H.
        destruct (lookup g i) as [nd|] eqn:Hl; [|congruence].
        destruct nd as [s|l|l|l|kvs|cls fs].
        * inversion Hk; subst. inversion H; subst. simpl. rewrite Hl. repeat split; eauto.
        * inversion H; subst. destruct (CH l ts (fun j Hj => closed_succ _ _ _ Hl Hj) Hk) as [C1 [C2 [C3 C4]]].
          unfold inv_result. split; [|split; [auto|split; [simpl; rewrite C3; reflexivity|exact C4]]].
          intros E. destruct (C1 E) as [vs Hvs]. simpl. rewrite Hl, Hvs. simpl. eauto.
        * inversion H; subst. destruct (CH l ts (fun j Hj => closed_succ _ _ _ Hl Hj) Hk) as [C1 [C2 [C3 C4]]].
          unfold inv_result. split; [|split; [auto|split; [simpl; rewrite C3; reflexivity|exact C4]]].
          intros E. destruct (C1 E) as [vs Hvs]. simpl. rewrite Hl, Hvs. simpl. eauto.
        * inversion H; subst. destruct (CH l ts (fun j Hj => closed_succ _ _ _ Hl Hj) Hk) as [C1 [C2 [C3 C4]]].
          unfold inv_result. split; [|split; [auto|split; [simpl; rewrite C3; reflexivity|exact C4]]].
          intros E. destruct (C1 E) as [vs Hvs]. simpl. rewrite Hl, Hvs. simpl. eauto.
        * (* dict *)
          apply Forall2_app_inv_l in Hk.
          destruct Hk as [tks [tvs [HK [HV ->]]]].
          (* the keys are scalars: their trees are the leaves *)
          assert (Etk : tks = map leaf_of (map (scalar_of g) (map fst kvs))).
          { pose proof (hash_dict g Hhash _ _ Hl) as Hs. clear -HK Hs.
            revert tks HK. induction (map fst kvs) as [|k ks IHk]; intros tks HK; simpl in HK; inversion HK; subst; auto.
            simpl in Hs. apply andb_prop in Hs. destruct Hs as [Hs1 Hs2].
            simpl. f_equal; [|apply IHk; auto].
            unfold scalar_of, node_of in *. destruct (lookup g k) as [nd|] eqn:E; [|simpl in Hs1].
            - destruct nd; simpl in Hs1; try discriminate.
              destruct H1 as [[Hf _]|[_ [m Hm]]].
              + rewrite (scalar_child _ _ E) in Hf. discriminate.
              + destruct d as [|d']; [simpl in Hm; discriminate|].
                rewrite (scalar_big _ _ E) in Hm. inversion Hm. reflexivity.
            - destruct H1 as [[Hf _]|[_ [m Hm]]].
              + unfold BuilderModel.flagged, expand in Hf. rewrite E in Hf. discriminate.
              + destruct d as [|d']; simpl in Hm; [discriminate|].
                rewrite E in Hm. simpl in Hm. rewrite ?E in Hm. discriminate. }
          assert (Hlk : length tks = length kvs) by (rewrite Etk, !map_length; reflexivity).
          assert (Hlv : length tvs = length kvs).
          { apply F2_length in HV. rewrite !map_length in HV. auto. }
          set (keys := map (scalar_of g) (map fst kvs)) in *.
          assert (Hitems : combine (firstn (Nat.div2 (length (tks ++ tvs))) (tks ++ tvs))
                                   (skipn (Nat.div2 (length (tks ++ tvs))) (tks ++ tvs))
                           = combine (map leaf_of keys) tvs).
          { rewrite div2_len_app by lia. rewrite firstn_len_app, skipn_len_app. rewrite Etk. reflexivity. }
          assert (D1 : dict_of tree_pyeq (combine (map leaf_of keys) tvs) = combine (map leaf_of keys) tvs).
          { apply dict_of_id. rewrite map_fst_combine by (rewrite <- Etk; lia). rewrite pairwise_map.
            exact (wf_dict g Hhash Hwf _ _ Hl). }
          assert (D2 : sort_raises (combine (map leaf_of keys) tvs) = false).
          { apply sort_raises_leaf_keys. intros [k v] Hin. apply in_combine_l in Hin. apply in_map_iff in Hin.
            destruct Hin as [s [<- _]]. reflexivity. }
          assert (Hvals : forall j, In j (map snd kvs) -> lookup g j <> None).
          { intros j Hj. apply (closed_succ _ _ _ Hl). simpl. apply in_or_app. auto. }
          destruct (CH (map snd kvs) tvs Hvals HV) as [C1 [C2 [C3 C4]]].
          assert (Hkeysph : existsb has_placeholder (map leaf_of keys) = false).
          { clear. induction keys as [|s keys IHk]; simpl; auto. }
          assert (Hkeysunf : exists ks, map_opt (unfold d g) (map fst kvs) = Some ks).
          { apply map_opt_all. intros k Hin. pose proof (hash_dict g Hhash _ _ Hl) as Hs.
            rewrite forallb_forall in Hs. specialize (Hs k Hin).
            assert (Hdk : lookup g k <> None) by (apply (closed_succ _ _ _ Hl); simpl; apply in_or_app; auto).
            unfold node_of in Hs. destruct (lookup g k) as [nd|] eqn:E; [|congruence].
            destruct nd; try discriminate.
            destruct d as [|d'].
            - (* depth 0: impossible, the keys were built *)
              exfalso. destruct (F2_in_l _ _ _ _ HK (in_map IId _ _ Hin)) as [y [_ [[Hf _]|[_ [m Hm]]]]].
              + rewrite (scalar_child _ _ E) in Hf. discriminate.
              + simpl in Hm. discriminate.
            - simpl. rewrite E. eauto. }
          rewrite Hitems, D1 in H. unfold make_dict in H. rewrite D2 in H. rewrite ?D1 in H.
          assert (Hunf : existsb has_placeholder tvs = false -> exists v, unfold (S d) g i = Some v).
          { intros E. destruct (C1 E) as [vs Hvs]. destruct Hkeysunf as [ks Hks].
            simpl. rewrite Hl.
            assert (G : exists ps, map_opt (fun kv => match unfold d g (fst kv), unfold d g (snd kv) with
                                                      | Some k, Some v => Some (k, v) | _, _ => None end) kvs = Some ps).
            { clear -Hvs Hks. revert vs ks Hvs Hks. induction kvs as [|[k v] kvs IHk]; simpl; intros vs ks Hvs Hks; eauto.
              destruct (unfold d g k); try discriminate. destruct (unfold d g v); try discriminate.
              destruct (map_opt (unfold d g) (map fst kvs)) eqn:E1; try discriminate.
              destruct (map_opt (unfold d g) (map snd kvs)) eqn:E2; try discriminate.
              destruct (IHk _ _ eq_refl eq_refl) as [ps Hps]. rewrite Hps. eauto. }
            destruct G as [ps Hps]. rewrite Hps. simpl. eauto. }
          assert (Hcp : map (fun kv => (copy (fst kv), copy (snd kv))) (combine (map leaf_of keys) tvs)
                        = combine (map leaf_of keys) tvs).
          { rewrite map_combine. rewrite C3. f_equal.
            clear. induction keys as [|s keys IHk]; simpl; auto. rewrite IHk. reflexivity. }
          assert (Hc0 : forallb (fun kv => cyc0 (fst kv) && cyc0 (snd kv)) (combine (map leaf_of keys) tvs) = true).
          { apply forallb_combine_cyc0; auto. clear. induction keys as [|s keys IHk]; simpl; auto. }
          destruct (allow_key_edits o); inversion H; subst; simpl; (split; [|split; [|split]]); try exact Hc0.
          -- intros E. apply Hunf. eapply existsb_combine_inv; [|exact E]. rewrite map_length. unfold keys.
             rewrite !map_length. lia.
          -- intros Hi. apply existsb_combine_false; auto.
          -- rewrite Hcp. reflexivity.
          -- intros E. apply Hunf. eapply existsb_combine_inv; [|exact E]. rewrite map_length. unfold keys.
             rewrite !map_length. lia.
          -- intros Hi. apply existsb_combine_false; auto.
          -- rewrite Hcp, D1. reflexivity.
        * (* instance of a class *)
          destruct Hobjs as [Hno|Hb]; [exfalso; eapply no_obj_lookup; eauto|].
          rewrite Hb in Hk, H. cbv iota in Hk. rewrite <- Hb in Hk.
          change (flat_map (fun f : string * Z => [ILit (fst f); IId (snd f)]) fs) with (attr_items fs) in Hk.
          inversion Hk as [|x1 tn l1 rest Hn HA]; try subst ts; clear Hk.
          apply (lit_childR d (IId i :: anc)) in Hn. subst tn.
          destruct (attrs_childR d (IId i :: anc) _ _ HA) as [tvs [-> HV]].
          assert (Hvals : forall j, In j (map snd fs) -> lookup g j <> None).
          { intros j Hj. apply (closed_succ _ _ _ Hl). exact Hj. }
          destruct (CH (map snd fs) tvs Hvals HV) as [C1 [C2 [C3 C4]]].
          assert (Hlv : length tvs = length (map SStr (map fst fs))).
          { apply F2_length in HV. rewrite !map_length in *. auto. }
          destruct (dict_inv_facts (map SStr (map fst fs)) tvs true Hlv (wf_obj g Hwf _ _ _ Hl) C3 C4) as [D1 [D2 D3]].
          rewrite pair_up_interleave in H by (rewrite !map_length in Hlv; rewrite map_length; auto).
          rewrite D1 in H. unfold make_dict in H. rewrite D2 in H. rewrite ?D1 in H.
          assert (Hunf : existsb has_placeholder tvs = false -> exists v, unfold (S d) g i = Some v).
          { intros E. destruct (C1 E) as [vs Hvs]. destruct (obj_unfold_join _ _ _ Hvs) as [ps Hps].
            simpl. rewrite Hl, Hps. simpl. eauto. }
          destruct (allow_key_edits o); inversion H; subst.
          -- destruct (D3 _ (or_introl eq_refl)) as [T1 [T2 T3]].
             destruct (obj_inv_facts cls _ T1 T2) as [O1 [O2 O3]].
             unfold inv_result. rewrite O1, O2, O3, T3. repeat split; auto.
          -- destruct (D3 _ (or_intror eq_refl)) as [T1 [T2 T3]].
             destruct (obj_inv_facts cls _ T1 T2) as [O1 [O2 O3]].
             unfold inv_result. rewrite O1, O2, O3, T3. repeat split; auto.
      + (* a child raised, or ran out of depth *)
        inversion H; subst. destruct r as [t|e|]; simpl; auto.
        * exfalso. eapply kids_not_built. rewrite Hk. reflexivity.
        * apply kids_err in Hk. destruct Hk as [?|[c [m [Hin Hc]]]]; auto.
          unfold expand in Hin. destruct (lookup g i) as [nd|] eqn:Hl; [|destruct Hin].
          assert (Hc' : (exists j, c = IId j /\ In j (succs nd)) \/ exists s, c = ILit s).
          { destruct nd as [s|l|l|l|kvs|cls fs]; simpl in *; try (destruct Hin; fail);
              try (apply in_map_iff in Hin; destruct Hin as [j [<- Hj]]; eauto; fail).
            - rewrite <- map_app in Hin. apply in_map_iff in Hin. destruct Hin as [j [<- Hj]]. eauto.
            - destruct Hobjs as [Hno|Hb]; [exfalso; eapply no_obj_lookup; eauto|].
              rewrite Hb in Hin. destruct Hin as [<-|Hin]; [right; eauto|].
              apply in_flat_map in Hin. destruct Hin as [[a j] [Hf Hin2]]. simpl in Hin2.
              destruct Hin2 as [<-|[<-|[]]]; [right; eauto|].
              left. exists j. split; auto. apply in_map_iff. exists (a, j). auto. }
          destruct Hc' as [[j [-> Hj]]|[s ->]].
          -- exact (IH _ _ _ _ (closed_succ _ _ _ Hl Hj) Hc).
          -- exfalso. exact (lit_not_raised _ _ _ _ _ Hc).
  Qed.

End Cyclic.

(* ================================================================== 8. the theorems *)

(* ------------------------------------------------------------------ the domain predicates *)

(* the extended domain contains the scalar-keys domain *)
Lemma key_positions_of_hashable : forall o g, hashable_positions g = true -> key_positions o g = true.
Proof.
  intros o g H. unfold key_positions, hashable_positions in *. rewrite forallb_forall in *.
  intros e He. specialize (H e He). destruct (snd e) as [s|l|l|l|kvs|cls fs]; auto.
  apply andb_true_intro. split.
  - rewrite forallb_forall in *. intros kv Hkv. rewrite (H kv Hkv). reflexivity.
  - apply orb_true_iff. right. rewrite forallb_forall in *. intros kv Hkv. apply H.
    destruct kvs; simpl in *; auto.
Qed.

Lemma python_wf_keys_of : forall g, hashable_positions g = true -> python_wf g = true -> python_wf_keys g = true.
Proof.
  intros g Hh Hw. unfold python_wf_keys, python_wf, hashable_positions in *. rewrite forallb_forall in *.
  intros e He. specialize (Hh e He). specialize (Hw e He). destruct (snd e) as [s|l|l|l|kvs|cls fs]; auto.
  eapply pairwise_ext_in; [|exact Hw]. intros a c Ha Hc E.
  assert (Sa : is_scalar_node (node_of g a) = true).
  { rewrite forallb_forall in Hh. apply in_map_iff in Ha. destruct Ha as [kv [<- Hin]]. auto. }
  assert (Sc : is_scalar_node (node_of g c) = true).
  { rewrite forallb_forall in Hh. apply in_map_iff in Hc. destruct Hc as [kv [<- Hin]]. auto. }
  cbv beta in E. rewrite Sa, Sc in E. simpl in E. unfold key_pyeq. rewrite !unfold_S. unfold unfold_step.
  unfold scalar_of, node_of in *.
  destruct (lookup g a) as [[sa| | | | |]|]; simpl in Sa; try discriminate; auto.
  destruct (lookup g c) as [[sc| | | | |]|]; simpl in Sc; try discriminate; auto.
Qed.

Lemma existsb_false_In : forall {A} (p : A -> bool) l, existsb p l = false -> forall x, In x l -> p x = false.
Proof.
  intros A p l H x Hx. destruct (p x) eqn:E; auto.
  assert (existsb p l = true) by (apply existsb_exists; eauto). congruence.
Qed.

(* the boundary of the extended domain is exactly the two open findings: outside the classes of D18 and D28
   (and given that lists and dicts are unhashable in Python) every option set and graph is inside *)
Theorem key_positions_boundary : forall c,
  python_hashable (c_graph c) = true -> kf_unhashable_key c = false -> kf_container_key_sort c = false ->
  key_positions (c_opts c) (c_graph c) = true.
Proof.
  intros [o g root outs]. simpl. intros Hp H18 H28.
  unfold kf_unhashable_key, kf_container_key_sort in *. simpl in *.
  assert (NC : forall n, is_hashable_container n = false -> is_unhashable_node n = false ->
                         is_scalar_node n || is_set_node n = true) by (destruct n; simpl; auto; discriminate).
  unfold key_positions, python_hashable in *. rewrite forallb_forall in *. intros e He.
  specialize (Hp e He). pose proof (existsb_false_In _ _ H18 e He) as E18. simpl in E18.
  destruct (snd e) as [s|l|l|l|kvs|cls fs] eqn:Ee; auto.
  - rewrite forallb_forall in *. intros j Hj. apply NC.
    + exact (existsb_false_In _ _ E18 j Hj).
    + specialize (Hp j Hj). apply negb_true_iff in Hp. exact Hp.
  - apply andb_true_intro. split.
    + rewrite forallb_forall in *. intros kv Hkv. apply NC.
      * exact (existsb_false_In _ _ E18 kv Hkv).
      * specialize (Hp kv Hkv). apply negb_true_iff in Hp. exact Hp.
    + destruct (allow_key_edits o); simpl in *; auto.
      pose proof (existsb_false_In _ _ H28 e He) as E28. simpl in E28. rewrite Ee in E28.
      apply forallb_forall. intros kv Hkv. pose proof (existsb_false_In _ _ E28 kv Hkv) as E.
      apply negb_false_iff in E. exact E.
Qed.

(* (a) the machine halts with a tree whose to_obj() is the plain value of the graph (LeafNode keys aside,
   literally: same order; hence equal for the executable comparison same_value of holds_C18), whose copy is
   itself, without placeholder.  Custom objects: with pydiff's builder (BasicBuilder raises on them).
   Dictionary keys and set elements: scalars and (frozen)sets (key_positions: all but D18 / D28). *)
Theorem acyclic_faithful : forall b o g,
  key_positions o g = true -> python_wf_keys g = true -> (has_objects g = false \/ b = PyObjB) ->
  forall d root v, unfold d g root = Some v ->
  exists t n v',
    (forall fuel, n <= fuel -> run_builder b o g fuel root = Built t)
    /\ to_obj t = ROk v' /\ norm v' = v /\ same_value v' v = true
    /\ copy t = t /\ tree_pyeq (copy t) t = true
    /\ has_placeholder t = false.
Proof.
  intros b o g Hh Hw Hn d root v H.
  destruct (acyclic_builds b o g Hh Hw Hn d root v H []) as [t [n [Hb Hg]]].
  { intros j []. }
  destruct Hg as [G1 [G2 [G3 [G4 _]]]].
  exists t, n, (tov t). repeat split; auto.
  - intros fuel Hle. eapply machine_refines; eauto. discriminate.
  - apply same_value_of_norm. exact G2.
  - rewrite G3. apply tree_pyeq_refl. apply no_placeholder_cyc0. exact G4.
Qed.

(* the same statement with the classes of the open findings as the only carve-outs: every case outside the
   classes of D18 and D28 that respects Python's own invariants is converted faithfully *)
Corollary acyclic_faithful_outside_findings : forall c b,
  python_hashable (c_graph c) = true -> python_wf_keys (c_graph c) = true ->
  kf_unhashable_key c = false -> kf_container_key_sort c = false ->
  (has_objects (c_graph c) = false \/ b = PyObjB) ->
  forall d v, unfold d (c_graph c) (c_root c) = Some v ->
  exists t n v',
    (forall fuel, n <= fuel -> run_builder b (c_opts c) (c_graph c) fuel (c_root c) = Built t)
    /\ to_obj t = ROk v' /\ same_value v' v = true
    /\ copy t = t /\ tree_pyeq (copy t) t = true /\ has_placeholder t = false.
Proof.
  intros c b Hp Hw H18 H28 Hn d v H.
  destruct (acyclic_faithful b (c_opts c) (c_graph c) (key_positions_boundary c Hp H18 H28) Hw Hn d _ v H)
    as [t [n [v' [A1 [A2 [_ [A4 [A5 [A6 A7]]]]]]]]].
  exists t, n, v'. auto 10.
Qed.

(* (b) sharing is never mistaken for a cycle: whatever the fuel, no cycle error and no placeholder *)
Theorem shared_not_cycle : forall b o g,
  key_positions o g = true -> python_wf_keys g = true -> (has_objects g = false \/ b = PyObjB) ->
  forall root, acyclic g root ->
  forall fuel, run_builder b o g fuel root <> Raised ECycle
               /\ (forall t, run_builder b o g fuel root = Built t -> has_placeholder t = false).
Proof.
  intros b o g Hh Hw Hn root [d [v H]] fuel.
  destruct (acyclic_faithful b o g Hh Hw Hn d root v H) as [t [n [v' [Hrun [_ [_ [_ [_ [_ Hph]]]]]]]]].
  assert (M : forall r, run_builder b o g fuel root = r -> r <> OutOfFuel -> r = Built t).
  { intros r Hr Hne. unfold run_builder in *.
    pose proof (run_mono b o g fuel _ r Hr Hne n) as Hm.
    rewrite (Hrun (fuel + n) ltac:(lia)) in Hm. auto. }
  split.
  - intros E. specialize (M _ E ltac:(discriminate)). discriminate.
  - intros t' E. specialize (M _ E ltac:(discriminate)). inversion M. subst. exact Hph.
Qed.

(* (c) a reachable cycle is always detected: cycle error, or a placeholder when cycles are ignored.
   With pydiff's builder this includes cycles that run through custom objects only (n.me = n): the
   all-grandchildren-are-leaves shortcut of build_tree asks the expander (is_leaf_item), for which an
   instance of a class is not a leaf. *)
Theorem cyclic_detected : forall b o g,
  check_cycles o = true ->
  hashable_positions g = true -> python_wf g = true -> (has_objects g = false \/ b = PyObjB) -> closed g = true ->
  forall root, lookup g root <> None -> reaches_cycle g root ->
  forall fuel, fuel_bound b o g root <= fuel ->
    (ignore_cycles o = false -> run_builder b o g fuel root = Raised ECycle)
    /\ (ignore_cycles o = true ->
        exists t, run_builder b o g fuel root = Built t /\ has_placeholder t = true
                  /\ copy t = t /\ tree_pyeq (copy t) t = true).
Proof.
  intros b o g Hck Hh Hw Hn Hc root Hdef Hcyc fuel Hle.
  destruct (machine_terminates b o g Hck root fuel Hle) as [Hrun Hne].
  destruct (bigs b o g (big_depth g) [] (IId root)) as [r n] eqn:E. simpl in Hrun.
  pose proof (bigs_domain_inv b o g Hh Hw Hn Hc _ _ _ _ _ Hdef E) as Hinv.
  rewrite Hrun in *.
  assert (Hnot : forall t, r = Built t -> has_placeholder t = false -> False).
  { intros t -> Hph. destruct Hinv as [I1 _]. destruct (I1 Hph) as [v Hv].
    apply (acyclic_no_cycle g root); [exists (big_depth g), v; auto|auto]. }
  destruct r as [t|e|]; [| |congruence].
  - destruct Hinv as [_ [I2 [I3 I4]]]. split.
    + intros Hi. exfalso. exact (Hnot t eq_refl (I2 Hi)).
    + intros Hi. exists t. split; auto. split; [|split; auto].
      * destruct (has_placeholder t) eqn:P; auto. exfalso. exact (Hnot t eq_refl P).
      * rewrite I3. apply tree_pyeq_refl. exact I4.
  - destruct Hinv as [-> Hi]. split; auto. intros Hi'. congruence.
Qed.

(* ------------------------------------------------------------------ the executable statement on the model's prediction *)

Lemma tree_eqv_refl : forall t, tree_eqv t t = true.
Proof.
  induction t as [k s|d i|l IH|l IH|a kvs IH|a kvs IH|n m IHn IHm] using tree_ind'.
  - simpl. rewrite scalar_eqb_refl. destruct k; reflexivity.
  - simpl. rewrite Nat.eqb_refl, Z.eqb_refl. reflexivity.
  - simpl. induction IH as [|x xs Hx HF IHl]; auto. rewrite Hx. simpl. auto.
  - simpl. induction IH as [|x xs Hx HF IHl]; auto. simpl. rewrite Hx. auto.
  - simpl. rewrite Bool.eqb_reflx. simpl. induction IH as [|[k v] xs [Hk Hv] HF IHl]; auto.
    simpl in *. rewrite Hk, Hv. simpl. auto.
  - simpl. rewrite Bool.eqb_reflx. simpl. induction IH as [|[k v] xs [Hk Hv] HF IHl]; auto.
    simpl in *. rewrite Hk, Hv. simpl. auto.
  - simpl. rewrite IHn, IHm. reflexivity.
Qed.

Definition objs_ok (ep : entry) (g : graph) : Prop := has_objects g = false \/ bkind_of ep = PyObjB.

Lemma defined_objs_ok : forall ep g, ep <> EJson -> defined_on ep g = true -> objs_ok ep g.
Proof.
  intros [| |] g Hne H; [congruence| |]; unfold objs_ok; simpl in *.
  - left. apply negb_true_iff. exact H.
  - right. reflexivity.
Qed.

(* (a') with exactly the fuel the correspondence check gives the model (fuel_bound), for every option set *)
Theorem acyclic_faithful_model : forall b o g,
  key_positions o g = true -> python_wf_keys g = true -> (has_objects g = false \/ b = PyObjB) ->
  forall d root v, unfold d g root = Some v ->
  exists t v',
    run_builder b o g (fuel_bound b o g root) root = Built t
    /\ to_obj t = ROk v' /\ norm v' = v /\ same_value v' v = true
    /\ copy t = t /\ tree_pyeq (copy t) t = true
    /\ has_placeholder t = false.
Proof.
  intros b o g Hh Hw Hn d root v H.
  pose proof (unfold_depth_complete g _ _ _ H) as Hd. unfold unfold_depth in Hd.
  destruct (acyclic_builds b o g Hh Hw Hn _ root v Hd []) as [t [n [Hb Hg]]].
  { intros j []. }
  destruct Hg as [G1 [G2 [G3 [G4 _]]]].
  exists t, (tov t). repeat split; auto.
  - eapply run_at_fuel_bound; [|exact Hb|discriminate]. unfold big_depth. lia.
  - apply same_value_of_norm. exact G2.
  - rewrite G3. apply tree_pyeq_refl. apply no_placeholder_cyc0. exact G4.
Qed.

(* the executable statement of the property (BuilderSpec.fails_entry: what holds_C18 evaluates on the
   implementation's output) has no violated clause on the model's own prediction, for the two builder entry
   points, every acyclic input of the domain and every option set ... *)
Theorem model_holds_acyclic : forall ep o g root,
  ep <> EJson -> defined_on ep g = true ->
  key_positions o g = true -> python_wf_keys g = true -> acyclic g root ->
  fails_entry o g root ep (observe (model_run ep o g root)) = [].
Proof.
  intros ep o g root Hne Hdef Hh Hw [d [v H]].
  pose proof (defined_objs_ok ep g Hne Hdef) as Hn.
  destruct (acyclic_faithful_model (bkind_of ep) o g Hh Hw Hn d root v H)
    as [t [v' [A1 [A2 [_ [A4 [A5 [A6 A7]]]]]]]].
  assert (Hrun : model_run ep o g root = Built t) by (destruct ep; [congruence|exact A1|exact A1]).
  rewrite Hrun. unfold fails_entry, observe. rewrite Hdef. simpl negb.
  rewrite (unfold_depth_complete g _ _ _ H). rewrite A2, A7, A4. unfold copy_clauses.
  rewrite A5 at 1. rewrite tree_eqv_refl, A6. reflexivity.
Qed.

(* ... and every input that reaches a cycle, when cycles are checked *)
Theorem model_holds_cyclic : forall ep o g root,
  ep <> EJson -> defined_on ep g = true -> check_cycles o = true ->
  hashable_positions g = true -> python_wf g = true -> closed g = true ->
  lookup g root <> None -> reaches_cycle g root ->
  fails_entry o g root ep (observe (model_run ep o g root)) = [].
Proof.
  intros ep o g root Hne Hdef Hck Hh Hw Hc Hroot Hcyc.
  pose proof (defined_objs_ok ep g Hne Hdef) as Hn.
  destruct (cyclic_detected (bkind_of ep) o g Hck Hh Hw Hn Hc root Hroot Hcyc _ (le_n _)) as [C1 C2].
  assert (Hnone : unfold (unfold_depth g) g root = None).
  { destruct (unfold (unfold_depth g) g root) as [v|] eqn:E; auto.
    exfalso. apply (acyclic_no_cycle g root); auto. exists (unfold_depth g), v. exact E. }
  destruct ep; [congruence| |];
    (unfold fails_entry; rewrite Hdef, Hnone, Hck; simpl negb; cbv iota;
     destruct (ignore_cycles o) eqn:Hi;
     [destruct (C2 eq_refl) as [t [R1 [R2 [R3 R4]]]]; unfold model_run; rewrite R1; unfold observe, copy_clauses;
      rewrite R2; rewrite R3 at 1; rewrite tree_eqv_refl, R4; reflexivity
     |unfold model_run; rewrite (C1 eq_refl); reflexivity]).
Qed.

(* BasicBuilder().build_tree and pydiff.build_tree are the same function on graphs without custom objects:
   same result for every fuel, cyclic graphs and error outcomes included *)
Section SameBuilders.
  Variable o : opts.
  Variable g : graph.
  Hypothesis Hnoobj : has_objects g = false.

  Lemma expand_same : forall it, expand BasicB g it = expand PyObjB g it.
  Proof.
    intros [i|s]; simpl; auto. destruct (lookup g i) as [nd|] eqn:E; auto.
    destruct nd; auto. exfalso. eapply no_obj_lookup; eauto.
  Qed.

  Lemma build_same : forall it ts, build BasicB o g it ts = build PyObjB o g it ts.
  Proof.
    intros [i|s] ts; simpl; auto. destruct (lookup g i) as [nd|] eqn:E; auto.
    destruct nd; auto. exfalso. eapply no_obj_lookup; eauto.
  Qed.

  Lemma flagged_same : forall c stack, flagged BasicB o g c stack = flagged PyObjB o g c stack.
  Proof.
    intros c stack. unfold flagged. rewrite expand_same.
    replace (forallb (is_leaf_item BasicB g) (expand PyObjB g c))
      with (forallb (is_leaf_item PyObjB g) (expand PyObjB g c)); auto.
    induction (expand PyObjB g c) as [|x l IHl]; simpl; auto. rewrite IHl. unfold is_leaf_item. rewrite expand_same. reflexivity.
  Qed.

  Lemma run_same : forall fuel w, run BasicB o g fuel w = run PyObjB o g fuel w.
  Proof.
    induction fuel as [|f IH]; intros w; simpl; auto.
    destruct w as [|[[node proc] pend] rest]; auto.
    destruct pend as [|c pend'].
    - rewrite build_same. destruct (build PyObjB o g node proc); auto. destruct rest as [|[[n2 p2] q2] rest']; auto.
    - rewrite flagged_same, expand_same. rewrite !IH. reflexivity.
  Qed.

  Theorem builders_agree : forall fuel root,
    run_builder BasicB o g fuel root = run_builder PyObjB o g fuel root.
  Proof. intros fuel root. unfold run_builder. rewrite expand_same. apply run_same. Qed.

  Lemma kids_same : forall rec rec' stack cs, (forall c, rec c = rec' c) ->
    kids BasicB o g rec stack cs = kids PyObjB o g rec' stack cs.
  Proof.
    intros rec rec' stack cs H. induction cs as [|c cs IH]; simpl; auto.
    rewrite flagged_same, IH, H. reflexivity.
  Qed.

  Lemma bigs_same : forall d anc it, bigs BasicB o g d anc it = bigs PyObjB o g d anc it.
  Proof.
    induction d as [|d IH]; intros anc it; simpl; auto.
    rewrite expand_same. rewrite (kids_same _ (bigs PyObjB o g d (it :: anc))) by (intros; apply IH).
    destruct (fst (kids PyObjB o g (bigs PyObjB o g d (it :: anc)) (it :: anc) (expand PyObjB g it))); auto.
    rewrite build_same. reflexivity.
  Qed.

  Lemma fuel_bound_same : forall root, fuel_bound BasicB o g root = fuel_bound PyObjB o g root.
  Proof. intros root. unfold fuel_bound. rewrite bigs_same. reflexivity. Qed.
End SameBuilders.

(* ================================================================== 9. json.build_tree builds the same tree *)

(* the two loops of json.build_tree, the recursive calls abstracted *)
Definition json_list_go (rec : Z -> outcome) : list Z -> list tree -> outcome :=
  fix go (l : list Z) (acc : list tree) {struct l} : outcome :=
    match l with
    | [] => Built (TList (rev acc))
    | c :: r => match rec c with
                | Built t => go r (t :: acc)
                | x => x
                end
    end.

Definition json_dict_go (o : opts) (reck recv : Z -> outcome) : list (Z * Z) -> list (tree * tree) -> outcome :=
  fix go (l : list (Z * Z)) (acc : list (tree * tree)) {struct l} : outcome :=
    match l with
    | [] => match make_dict false o (dict_of tree_pyeq (rev acc)) with
            | BOk t => Built t | BErr e => Raised e end
    | (k, v) :: r =>
        match reck k with
        | Built tk => match recv v with
                      | Built tv => go r ((tk, tv) :: acc)
                      | x => x
                      end
        | x => x
        end
    end.

Lemma json_list_go_ok : forall rec l ts acc, Forall2 (fun c t => rec c = Built t) l ts ->
  json_list_go rec l acc = Built (TList (rev acc ++ ts)).
Proof.
  intros rec. induction l as [|c l IH]; intros ts acc HF; inversion HF; subst; simpl.
  - rewrite app_nil_r. reflexivity.
  - rewrite H1. rewrite (IH _ _ H3). simpl. rewrite <- app_assoc. reflexivity.
Qed.

Lemma json_dict_go_ok : forall o reck recv kvs tks tvs acc,
  Forall2 (fun c t => reck c = Built t) (map fst kvs) tks ->
  Forall2 (fun c t => recv c = Built t) (map snd kvs) tvs ->
  json_dict_go o reck recv kvs acc
  = match make_dict false o (dict_of tree_pyeq (rev acc ++ combine tks tvs)) with
    | BOk t => Built t | BErr e => Raised e end.
Proof.
  intros o reck recv. induction kvs as [|[k v] kvs IH]; intros tks tvs acc HK HV; simpl in HK, HV;
    inversion HK; inversion HV; subst; simpl.
  - rewrite app_nil_r. reflexivity.
  - rewrite H1, H6. rewrite (IH _ _ _ H3 H8). simpl. rewrite <- app_assoc. reflexivity.
Qed.

Lemma dict_set_keys : forall {K V} (eqb : K -> K -> bool) k (v : V) l k',
  In k' (map fst (dict_set eqb k v l)) -> k' = k \/ In k' (map fst l).
Proof.
  induction l as [|[k0 v0] l IH]; simpl; intros k' H.
  - destruct H as [<-|[]]. auto.
  - destruct (eqb k0 k); simpl in H.
    + destruct H as [<-|H]; auto.
    + destruct H as [<-|H]; auto. destruct (IH _ H); auto.
Qed.

Lemma dict_of_keys : forall {K V} (eqb : K -> K -> bool) (l : list (K * V)) k',
  In k' (map fst (dict_of eqb l)) -> In k' (map fst l).
Proof.
  intros K V eqb l k'. unfold dict_of.
  assert (G : forall (l acc : list (K * V)),
            In k' (map fst (fold_left (fun acc kv => dict_set eqb (fst kv) (snd kv) acc) l acc)) ->
            In k' (map fst acc) \/ In k' (map fst l)).
  { clear l. induction l as [|[k v] l IH]; simpl; intros acc H; auto.
    destruct (IH _ H) as [H1|H1]; auto.
    destruct (dict_set_keys _ _ _ _ _ H1) as [->|H2]; auto. }
  intros H. destruct (G l [] H) as [[]|H1]. exact H1.
Qed.

Lemma json_supported_no_objects : forall g, json_supported g = true -> has_objects g = false.
Proof.
  intros g H. unfold has_objects. apply existsb_false_forall. intros [i nd] Hin.
  unfold json_supported in H. rewrite forallb_forall in H. specialize (H _ Hin). simpl in *.
  destruct nd; try reflexivity. discriminate H.
Qed.

Lemma F2_impl : forall {A B} (R R' : A -> B -> Prop) l l',
  (forall a c, R a c -> R' a c) -> Forall2 R l l' -> Forall2 R' l l'.
Proof. induction 2; constructor; auto. Qed.

Section JsonAgree.
  Variable o : opts.
  Variable g : graph.
  Hypothesis Hjs : json_supported g = true.
  Hypothesis Hnb : has_bytes g = false.

  Notation bigs := (bigs BasicB o g).
  Notation kids := (kids BasicB o g).
  Notation flagged := (flagged BasicB o g).

  Lemma json_build_list : forall d i l, lookup g i = Some (PList l) ->
    json_build (S d) o g false i = json_list_go (json_build d o g false) l [].
  Proof. intros d i l H. simpl. rewrite H. reflexivity. Qed.

  Lemma json_build_tuple : forall d i l, lookup g i = Some (PTuple l) ->
    json_build (S d) o g false i = json_list_go (json_build d o g false) l [].
  Proof. intros d i l H. simpl. rewrite H. reflexivity. Qed.

  Lemma json_build_dict : forall d i kvs, lookup g i = Some (PDict kvs) ->
    json_build (S d) o g false i = json_dict_go o (json_build d o g true) (json_build d o g false) kvs [].
  Proof. intros d i kvs H. simpl. rewrite H. reflexivity. Qed.

  Lemma not_bytes : forall i s, lookup g i = Some (PScalar (SBytes s)) -> False.
  Proof.
    intros i s H. apply lookup_In in H. unfold has_bytes in Hnb.
    assert (E : existsb (fun e => is_bytes_node (snd e)) g = true).
    { apply existsb_exists. exists (i, PScalar (SBytes s)). auto. }
    congruence.
  Qed.

  (* json.build_tree on a scalar: the same leaf as BasicBuilder's (bytes aside: D31); None is refused as a key *)
  Lemma json_scalar : forall i s, lookup g i = Some (PScalar s) -> forall d,
    json_build (S d) o g false i = Built (leaf_of s)
    /\ (s <> SNone -> json_build (S d) o g true i = Built (leaf_of s)).
  Proof.
    intros i s H d. simpl. rewrite H. destruct s; try (split; [reflexivity|intros; reflexivity]).
    - split; [reflexivity|congruence].
    - exfalso. eapply not_bytes; eauto.
  Qed.

  Lemma kids_built : forall stack rec l ts,
    Forall2 (fun j t => flagged (IId j) stack = false /\ exists n, rec (IId j) = (Built t, n)) l ts ->
    exists n, kids rec stack (map IId l) = (inl ts, n).
  Proof.
    induction 1 as [|j t l ts [Hf [n1 Hr]] HF [n2 IH]]; simpl; eauto.
    rewrite Hf, Hr, IH. simpl. eauto.
  Qed.

  Lemma js_dict_keys : forall i kvs, lookup g i = Some (PDict kvs) ->
    forall k, In k (map fst kvs) -> exists s, lookup g k = Some (PScalar s) /\ s <> SNone.
  Proof.
    intros i kvs H k Hk. apply lookup_In in H. unfold json_supported in Hjs.
    rewrite forallb_forall in Hjs. specialize (Hjs _ H). simpl in Hjs. rewrite forallb_forall in Hjs.
    apply in_map_iff in Hk. destruct Hk as [[k' v] [<- Hin]]. specialize (Hjs _ Hin). simpl in *.
    unfold node_of in Hjs. destruct (lookup g k') as [[s| | | | |]|]; simpl in Hjs; try discriminate.
    exists s. split; auto. intros ->. discriminate.
  Qed.

  (* what the induction carries for child j *)
  Definition jgood (d : nat) (stack : list item) (j : Z) (t : tree) : Prop :=
    flagged (IId j) stack = false
    /\ (exists n, bigs (S d) stack (IId j) = (Built t, n))
    /\ json_build d o g false j = Built t
    /\ (forall s, lookup g j = Some (PScalar s) ->
          t = leaf_of s /\ (s <> SNone -> json_build d o g true j = Built t)).

  Lemma json_agree_gen : forall d i v, unfold d g i = Some v -> forall anc,
    (forall j, In (IId j) anc -> ~ reach g i j) ->
    exists t n, bigs (S d) anc (IId i) = (Built t, n) /\ json_build d o g false i = Built t
      /\ (forall s, lookup g i = Some (PScalar s) ->
            t = leaf_of s /\ (s <> SNone -> json_build d o g true i = Built t)).
  Proof.
    induction d as [|d IH]; intros i v H anc Hanc; [discriminate|].
    assert (CH : forall l vs, (forall j, In j l -> edge g i j) ->
                 Forall2 (fun j v => unfold d g j = Some v) l vs ->
                 exists ts, Forall2 (jgood d (IId i :: anc)) l ts).
    { induction l as [|a l IHl]; intros vs He HF; inversion HF; subst.
      - exists []. constructor.
      - destruct (IHl l' (fun j Hj => He j (or_intror Hj)) H4) as [ts Hts].
        assert (Hea : edge g i a) by (apply He; left; reflexivity).
        destruct (IH a y H2 (IId i :: anc)) as [t [n [Hb [Hj Hs]]]].
        { intros j [Hj|Hj] Hr.
          - injection Hj as <-. exact (no_self_reach g _ _ _ _ H Hea Hr).
          - apply (Hanc j Hj). eapply reach_step; eauto. }
        exists (t :: ts). constructor; auto. unfold jgood. repeat split; eauto; try (apply Hs; auto).
        unfold BuilderModel.flagged.
        assert (E : existsb (fun a0 => item_is a0 (IId a)) (IId i :: anc) = false).
        { simpl. apply orb_false_intro.
          - apply Z.eqb_neq. intros Heq. rewrite Heq in *. exact (no_self_reach g _ _ _ _ H Hea (reach_refl _ _)).
          - apply existsb_false_forall. intros [k|s] Hin; simpl; auto.
            apply Z.eqb_neq. intros Heq. rewrite Heq in *. apply (Hanc a Hin). eapply reach_step; [exact Hea|apply reach_refl]. }
        rewrite E. apply andb_false_r. }
    assert (KB : forall l ts, Forall2 (jgood d (IId i :: anc)) l ts ->
                 (exists n, kids (bigs (S d) (IId i :: anc)) (IId i :: anc) (map IId l) = (inl ts, n))
                 /\ Forall2 (fun c t => json_build d o g false c = Built t) l ts).
    { intros l ts HF. split.
      - apply kids_built. eapply F2_impl; [|exact HF]. intros a t [J1 [J2 _]]. auto.
      - eapply F2_impl; [|exact HF]. intros a t [_ [_ [J3 _]]]. auto. }
    rewrite unfold_S in H. unfold unfold_step in H. destruct (lookup g i) as [nd|] eqn:Hl; [|discriminate].
    destruct nd as [s|l|l|l|kvs|cls fs].
    - (* scalar *)
      exists (leaf_of s), 1. destruct (json_scalar _ _ Hl d) as [S1 S2]. split; [|split; auto].
      + apply scalar_big. exact Hl.
      + intros s' E. inversion E. subst. auto.
    - (* list *)
      destruct (map_opt (unfold d g) l) as [vs|] eqn:E; [|discriminate].
      destruct (CH l vs) as [ts HB]; [intros j Hj; exists (PList l); auto|apply map_opt_Forall2; auto|].
      destruct (KB _ _ HB) as [[n Hk] HJ].
      exists (TList ts), (S n). split; [|split].
      + apply bigs_built with (ts := ts); unfold expand, build; rewrite Hl; auto.
      + rewrite (json_build_list _ _ _ Hl). rewrite (json_list_go_ok _ _ _ _ HJ). reflexivity.
      + intros s E0. discriminate.
    - (* tuple *)
      destruct (map_opt (unfold d g) l) as [vs|] eqn:E; [|discriminate].
      destruct (CH l vs) as [ts HB]; [intros j Hj; exists (PTuple l); auto|apply map_opt_Forall2; auto|].
      destruct (KB _ _ HB) as [[n Hk] HJ].
      exists (TList ts), (S n). split; [|split].
      + apply bigs_built with (ts := ts); unfold expand, build; rewrite Hl; auto.
      + rewrite (json_build_tuple _ _ _ Hl). rewrite (json_list_go_ok _ _ _ _ HJ). reflexivity.
      + intros s E0. discriminate.
    - (* set: outside json.build_tree's domain *)
      exfalso. apply lookup_In in Hl. unfold json_supported in Hjs. rewrite forallb_forall in Hjs.
      specialize (Hjs _ Hl). discriminate.
    - (* dict *)
      match type of H with option_map _ (map_opt ?f kvs) = _ => destruct (map_opt f kvs) as [ps|] eqn:E end;
        [|discriminate].
      destruct (dict_unfold_split g _ _ _ E) as [FK FV].
      destruct (CH (map fst kvs) (map fst ps)) as [tks HK];
        [intros j Hj; exists (PDict kvs); split; auto; simpl; apply in_or_app; auto|auto|].
      destruct (CH (map snd kvs) (map snd ps)) as [tvs HV];
        [intros j Hj; exists (PDict kvs); split; auto; simpl; apply in_or_app; auto|auto|].
      destruct (KB _ _ (Forall2_app HK HV)) as [[n Hk] _]. rewrite map_app in Hk.
      destruct (KB _ _ HV) as [_ HJV].
      (* the keys: leaves, and json's forced-leaf call builds the same leaf *)
      assert (HJK : Forall2 (fun c t => json_build d o g true c = Built t) (map fst kvs) tks
                    /\ forallb is_leaf_tree tks = true).
      { pose proof (js_dict_keys _ _ Hl) as Hs. clear -HK Hs.
        induction HK as [|k t ks ts Hk HF IHF]; [split; [constructor|reflexivity]|].
        destruct (Hs k (or_introl eq_refl)) as [s [Hls Hne]].
        destruct Hk as [_ [_ [_ Hsc]]]. destruct (Hsc _ Hls) as [-> Hj].
        destruct IHF as [I1 I2]; [intros; apply Hs; right; auto|]. split; [constructor; auto|].
        simpl. exact I2. }
      destruct HJK as [HJK Hleaf].
      assert (Hlk : length tks = length kvs) by (apply F2_length in HK; rewrite map_length in HK; auto).
      assert (Hlv : length tvs = length kvs) by (apply F2_length in HV; rewrite map_length in HV; auto).
      assert (Hitems : combine (firstn (Nat.div2 (length (tks ++ tvs))) (tks ++ tvs))
                               (skipn (Nat.div2 (length (tks ++ tvs))) (tks ++ tvs))
                       = combine tks tvs).
      { rewrite div2_len_app by lia. rewrite firstn_len_app, skipn_len_app. reflexivity. }
      assert (Hsr : sort_raises (dict_of tree_pyeq (combine tks tvs)) = false).
      { apply sort_raises_leaf_keys. intros kv Hin.
        assert (Hk' : In (fst kv) (map fst (combine tks tvs))).
        { apply dict_of_keys with (eqb := tree_pyeq). apply in_map. exact Hin. }
        rewrite map_fst_combine in Hk' by lia. rewrite forallb_forall in Hleaf. auto. }
      destruct (make_dict false o (dict_of tree_pyeq (combine tks tvs))) as [t|e] eqn:Hmd.
      2: { exfalso. unfold make_dict in Hmd. rewrite Hsr in Hmd. destruct (allow_key_edits o); discriminate. }
      exists t, (S n). split; [|split].
      + apply bigs_built with (ts := tks ++ tvs); [unfold expand; rewrite Hl; exact Hk|].
        unfold build. rewrite Hl. rewrite Hitems. exact Hmd.
      + rewrite (json_build_dict _ _ _ Hl). rewrite (json_dict_go_ok _ _ _ _ _ _ _ HJK HJV). simpl.
        rewrite Hmd. reflexivity.
      + intros s E'. discriminate.
    - (* instance of a class: outside json.build_tree's domain *)
      exfalso. apply lookup_In in Hl. unfold json_supported in Hjs. rewrite forallb_forall in Hjs.
      specialize (Hjs _ Hl). discriminate.
  Qed.

End JsonAgree.

(* on the domain where json.build_tree is defined and no open finding applies (json_supported: no sets, no
   instances of classes, dictionary keys are int/float/bool/str; no bytes - D31; acyclic - D32), all three
   entry points return the same tree, under every option set: json_run = run_builder for every builder *)
(* the same for the function the correspondence check evaluates (model_run: the builders with fuel_bound) *)
Theorem entry_points_model : forall o g,
  json_supported g = true -> has_bytes g = false ->
  forall root, acyclic g root ->
  exists t, forall ep, model_run ep o g root = Built t.
Proof.
  intros o g Hjs Hnb root [d [v H]].
  pose proof (unfold_depth_complete g _ _ _ H) as Hd. unfold unfold_depth in Hd.
  destruct (json_agree_gen o g Hjs Hnb _ _ _ Hd []) as [t [n [Hb [Hj _]]]]; [intros j []|].
  assert (HB : run_builder BasicB o g (fuel_bound BasicB o g root) root = Built t).
  { eapply run_at_fuel_bound; [|exact Hb|discriminate]. unfold big_depth. lia. }
  exists t. intros [| |]; simpl.
  - unfold json_run. rewrite Hj. reflexivity.
  - exact HB.
  - pose proof (json_supported_no_objects g Hjs) as Hno.
    rewrite <- (fuel_bound_same o g Hno), <- (builders_agree o g Hno). exact HB.
Qed.

Theorem entry_points_agree : forall o g,
  json_supported g = true -> has_bytes g = false ->
  forall root, acyclic g root ->
  exists t n, json_run o g root = Built t
    /\ forall b fuel, n <= fuel -> run_builder b o g fuel root = json_run o g root.
Proof.
  intros o g Hjs Hnb root [d [v H]].
  pose proof (unfold_depth_complete g _ _ _ H) as Hd. unfold unfold_depth in Hd.
  destruct (json_agree_gen o g Hjs Hnb _ _ _ Hd []) as [t [n [Hb [Hj _]]]]; [intros j []|].
  assert (Hrun : json_run o g root = Built t) by (unfold json_run; rewrite Hj; reflexivity).
  exists t, n. split; auto. intros b fuel Hle. rewrite Hrun.
  assert (HB : run_builder BasicB o g fuel root = Built t).
  { eapply machine_refines; eauto. discriminate. }
  destruct b; auto. rewrite <- builders_agree; auto. apply json_supported_no_objects. exact Hjs.
Qed.

(* ------------------------------------------------------------------ the hypotheses are satisfiable *)

Open Scope Z_scope.

Definition o_default := {| allow_key_edits := true; auto_match_keys := true; check_cycles := true; ignore_cycles := false |}.
Definition o_ignore := {| allow_key_edits := false; auto_match_keys := false; check_cycles := true; ignore_cycles := true |}.

(* a = [1, 2]; root = [a, a, (a, a), {"k": a, 2.5: {a-free set}}]: a is shared four times *)
Definition g_shared : graph :=
  [(0, PList [1; 1; 2; 5]); (1, PList [3; 4]); (2, PTuple [1; 1]); (3, PScalar (SInt 1)); (4, PScalar (SInt 2));
   (5, PDict [(6, 1); (7, 8)]); (6, PScalar (SStr "k")); (7, PScalar (SFloat "2.5" None)); (8, PSet [3; 9]);
   (9, PSet [])].

Example shared_example :
  hashable_positions g_shared = true /\ python_wf g_shared = true /\ has_objects g_shared = false
  /\ key_positions o_default g_shared = true /\ python_wf_keys g_shared = true
  /\ acyclic g_shared 0
  /\ (edge g_shared 0 1 /\ edge g_shared 2 1 /\ edge g_shared 5 1)          (* sharing *)
  /\ exists t, run_builder BasicB o_default g_shared (fuel_bound BasicB o_default g_shared 0) 0 = Built t
               /\ has_placeholder t = false.
Proof.
  repeat split; try reflexivity.
  - exists 5%nat. eexists. vm_compute. reflexivity.
  - eexists; split; [reflexivity|simpl; auto].
  - eexists; split; [reflexivity|simpl; auto].
  - eexists; split; [reflexivity|simpl; auto 10].
  - eexists. split; vm_compute; reflexivity.
Qed.

(* m1 = [1, m2]; m2 = [m1]; root = {"x": [[m1]]}: a mutual cycle three levels below the root *)
Definition g_mutual : graph :=
  [(0, PDict [(1, 2)]); (1, PScalar (SStr "x")); (2, PList [3]); (3, PList [4]);
   (4, PList [5; 6]); (5, PScalar (SInt 1)); (6, PList [4])].

Example cyclic_example :
  hashable_positions g_mutual = true /\ python_wf g_mutual = true /\ has_objects g_mutual = false
  /\ closed g_mutual = true /\ lookup g_mutual 0 <> None /\ reaches_cycle g_mutual 0
  /\ run_builder BasicB o_default g_mutual (fuel_bound BasicB o_default g_mutual 0) 0 = Raised ECycle
  /\ exists t, run_builder BasicB o_ignore g_mutual (fuel_bound BasicB o_ignore g_mutual 0) 0 = Built t
               /\ has_placeholder t = true.
Proof.
  repeat split; try reflexivity.
  - discriminate.
  - exists 4, 6. repeat split.
    + eapply reach_step; [eexists; split; [reflexivity|simpl; auto]|].
      eapply reach_step; [eexists; split; [reflexivity|simpl; auto]|].
      eapply reach_step; [eexists; split; [reflexivity|simpl; auto]|]. apply reach_refl.
    + eexists; split; [reflexivity|simpl; auto].
    + eapply reach_step; [eexists; split; [reflexivity|simpl; auto]|]. apply reach_refl.
  - eexists. split; vm_compute; reflexivity.
Qed.

(* cycles that run through instances of classes only (pydiff entry point): p = P(); q = Q(); p.nxt = q;
   p.val = 1; q.nxt = p; root = [p]  -  and the self reference n = P(); n.me = n; n.x = 1.  Every node on
   the cycle has only scalars and instances as attribute values: the case in which the
   all-grandchildren-are-leaves shortcut must ask the expander. *)
Definition g_obj_ring : graph :=
  [(0, PList [1]); (1, PObj "P" [("nxt", 2); ("val", 3)]); (2, PObj "Q" [("nxt", 1)]); (3, PScalar (SInt 1))].
Definition g_obj_self : graph := [(0, PObj "P" [("me", 0); ("x", 1)]); (1, PScalar (SInt 1))].

Example obj_cycle_example :
  hashable_positions g_obj_ring = true /\ python_wf g_obj_ring = true /\ has_objects g_obj_ring = true
  /\ closed g_obj_ring = true /\ lookup g_obj_ring 0 <> None /\ reaches_cycle g_obj_ring 0
  /\ run_builder PyObjB o_default g_obj_ring (fuel_bound PyObjB o_default g_obj_ring 0) 0 = Raised ECycle
  /\ (exists t, run_builder PyObjB o_ignore g_obj_ring (fuel_bound PyObjB o_ignore g_obj_ring 0) 0 = Built t
                /\ has_placeholder t = true)
  /\ hashable_positions g_obj_self = true /\ python_wf g_obj_self = true /\ closed g_obj_self = true
  /\ reaches_cycle g_obj_self 0
  /\ run_builder PyObjB o_default g_obj_self (fuel_bound PyObjB o_default g_obj_self 0) 0 = Raised ECycle
  /\ (exists t, run_builder PyObjB o_ignore g_obj_self (fuel_bound PyObjB o_ignore g_obj_self 0) 0 = Built t
                /\ has_placeholder t = true).
Proof.
  repeat split; try reflexivity.
  - discriminate.
  - exists 1, 2. repeat split.
    + eapply reach_step; [eexists; split; [reflexivity|simpl; auto]|]. apply reach_refl.
    + eexists; split; [reflexivity|simpl; auto].
    + eapply reach_step; [eexists; split; [reflexivity|simpl; auto]|]. apply reach_refl.
  - eexists. split; vm_compute; reflexivity.
  - exists 0, 0. repeat split.
    + apply reach_refl.
    + eexists; split; [reflexivity|simpl; auto].
    + apply reach_refl.
  - eexists. split; vm_compute; reflexivity.
Qed.

(* an acyclic graph with a shared instance: p = P(); p.a = 1; p.b = [1, 1]; root = [p, p, Q(c = p)] *)
Definition g_obj_shared : graph :=
  [(0, PList [1; 1; 4]); (1, PObj "P" [("a", 2); ("b", 3)]); (2, PScalar (SInt 1)); (3, PList [2; 2]);
   (4, PObj "Q" [("c", 1)])].

Example acyclic_obj_example :
  key_positions o_default g_obj_shared = true /\ python_wf_keys g_obj_shared = true /\ has_objects g_obj_shared = true
  /\ acyclic g_obj_shared 0 /\ (edge g_obj_shared 0 1 /\ edge g_obj_shared 4 1)
  /\ exists t v, run_builder PyObjB o_default g_obj_shared (fuel_bound PyObjB o_default g_obj_shared 0) 0 = Built t
               /\ has_placeholder t = false /\ to_obj t = ROk v
               /\ unfold 5 g_obj_shared 0 = Some (norm v).
Proof.
  repeat split; try reflexivity.
  - exists 5%nat. eexists. vm_compute. reflexivity.
  - eexists; split; [reflexivity|simpl; auto].
  - eexists; split; [reflexivity|simpl; auto].
  - eexists. eexists. repeat split; vm_compute; reflexivity.
Qed.

(* frozensets as dictionary keys: {frozenset({1, 2}): 3, "a": frozenset()} - inside key_positions for every
   strategy (the only non-leaf key is the first one), outside the scalar-keys domain *)
Definition g_fset_key : graph :=
  [(0, PDict [(1, 4); (5, 6)]); (1, PSet [2; 3]); (2, PScalar (SInt 1)); (3, PScalar (SInt 2));
   (4, PScalar (SInt 3)); (5, PScalar (SStr "a")); (6, PSet [])].

Example fset_key_example :
  key_positions o_default g_fset_key = true /\ key_positions o_ignore g_fset_key = true
  /\ python_wf_keys g_fset_key = true /\ hashable_positions g_fset_key = false /\ acyclic g_fset_key 0
  /\ exists t v, run_builder BasicB o_default g_fset_key (fuel_bound BasicB o_default g_fset_key 0) 0 = Built t
       /\ to_obj t = ROk v
       /\ v = VDict [(VMSet [VScalar (SInt 1); VScalar (SInt 2)], VScalar (SInt 3)); (VScalar (SStr "a"), VMSet [])]
       /\ unfold 3 g_fset_key 0 = Some v.
Proof.
  repeat split; try reflexivity.
  - exists 3%nat. eexists. vm_compute. reflexivity.
  - eexists. eexists. repeat split; vm_compute; reflexivity.
Qed.

(* the fuel bound is a concrete number of steps: 2 * (items of the unfolding) - 1 *)
Example fuel_bound_example : fuel_bound BasicB o_default g_shared 0 = 45%nat.
Proof. vm_compute. reflexivity. Qed.

(* ------------------------------------------------------------------ where the property fails (known findings) *)

(* D18: {(1, 2): 3} - acyclic, Python-well-formed, but a tuple sits in a hashable position: to_obj() raises *)
Definition g_tuple_key : graph :=
  [(0, PDict [(1, 4)]); (1, PTuple [2; 3]); (2, PScalar (SInt 1)); (3, PScalar (SInt 2)); (4, PScalar (SInt 3))].

Theorem acyclic_refuted_tuple_key :
  python_wf g_tuple_key = true /\ has_objects g_tuple_key = false /\ acyclic g_tuple_key 0
  /\ hashable_positions g_tuple_key = false
  /\ python_wf_keys g_tuple_key = true /\ python_hashable g_tuple_key = true
  /\ key_positions o_default g_tuple_key = false /\ key_positions o_ignore g_tuple_key = false
  /\ exists t, run_builder BasicB o_default g_tuple_key (fuel_bound BasicB o_default g_tuple_key 0) 0 = Built t
               /\ to_obj t = RErr "TypeError".
Proof.
  repeat split; try reflexivity.
  - exists 3%nat. eexists. vm_compute. reflexivity.
  - eexists. split; vm_compute; reflexivity.
Qed.

(* D28: {frozenset({1}): 3, frozenset({2}): 4} under the default strategy: TypeError while building *)
Definition g_set_keys : graph :=
  [(0, PDict [(1, 5); (2, 6)]); (1, PSet [3]); (2, PSet [4]); (3, PScalar (SInt 1)); (4, PScalar (SInt 2));
   (5, PScalar (SInt 3)); (6, PScalar (SInt 4))].

Theorem acyclic_refuted_container_keys :
  acyclic g_set_keys 0 /\ hashable_positions g_set_keys = false
  /\ python_wf_keys g_set_keys = true /\ python_hashable g_set_keys = true
  /\ key_positions o_default g_set_keys = false
  /\ run_builder BasicB o_default g_set_keys (fuel_bound BasicB o_default g_set_keys 0) 0 = Raised ETypeError
  (* the same graph under the strategy that does not sort (allow_key_edits off) is inside the domain *)
  /\ key_positions o_ignore g_set_keys = true
  /\ exists t, run_builder BasicB o_ignore g_set_keys (fuel_bound BasicB o_ignore g_set_keys 0) 0 = Built t.
Proof.
  repeat split; try reflexivity.
  - exists 3%nat. eexists. vm_compute. reflexivity.
  - eexists. vm_compute. reflexivity.
Qed.

(* formerly D29 (PyObj had no __eq__) and D30 (the copy of a placeholder was wrapped once more): repaired in
   /repo; the copies are now equal, also for Python's == *)
Definition g_obj : graph := [(0, PObj "P" [("a", 1); ("b", 2)]); (1, PScalar (SInt 1)); (2, PList [1; 1])].

Example copy_pyobj_example :
  acyclic g_obj 0 /\
  exists t, run_builder PyObjB o_default g_obj (fuel_bound PyObjB o_default g_obj 0) 0 = Built t
            /\ copy t = t /\ tree_pyeq (copy t) t = true.
Proof.
  split; [exists 3%nat; eexists; vm_compute; reflexivity|].
  eexists. repeat split; vm_compute; reflexivity.
Qed.

Definition g_self : graph := [(0, PList [0])].

Example copy_placeholder_example :
  exists t, run_builder BasicB o_ignore g_self (fuel_bound BasicB o_ignore g_self 0) 0 = Built t
            /\ has_placeholder t = true /\ copy t = t /\ tree_pyeq (copy t) t = true.
Proof. eexists. repeat split; vm_compute; reflexivity. Qed.

(* D31: json.build_tree decodes bytes; D32: json.build_tree on l = [l] is a RecursionError *)
Definition g_bytes : graph := [(0, PList [1]); (1, PScalar (SBytes "ab"))].

Theorem json_refuted_bytes :
  json_run o_default g_bytes 0 = Built (TList [TLeaf KStr (SStr "ab")])
  /\ run_builder BasicB o_default g_bytes (fuel_bound BasicB o_default g_bytes 0) 0
     = Built (TList [TLeaf KStr (SBytes "ab")]).
Proof. split; vm_compute; reflexivity. Qed.

Theorem json_refuted_cycle : json_run o_default g_self 0 = Raised ERecursion.
Proof. vm_compute. reflexivity. Qed.

(* on the shared example all three entry points build the same tree (the general statement is checked by
   the correspondence harness: clause ClSameTree of holds_C18) *)
Definition g_json_shared : graph :=
  [(0, PList [1; 1; 2; 5]); (1, PList [3; 4]); (2, PTuple [1; 1]); (3, PScalar (SInt 1)); (4, PScalar (SInt 2));
   (5, PDict [(6, 1); (7, 3)]); (6, PScalar (SStr "k")); (7, PScalar (SFloat "2.5" None))].

Example entry_points_example :
  json_supported g_json_shared = true /\
  exists t, json_run o_default g_json_shared 0 = Built t
    /\ run_builder BasicB o_default g_json_shared (fuel_bound BasicB o_default g_json_shared 0) 0 = Built t
    /\ run_builder PyObjB o_default g_json_shared (fuel_bound PyObjB o_default g_json_shared 0) 0 = Built t.
Proof. split; [reflexivity|]. eexists. repeat split; vm_compute; reflexivity. Qed.

Example entry_points_domain_example :
  json_supported g_json_shared = true /\ has_bytes g_json_shared = false /\ acyclic g_json_shared 0.
Proof. repeat split; try reflexivity. exists 4%nat. eexists. vm_compute. reflexivity. Qed.

(* the executable statement holds on the model's own prediction for these graphs *)
Example holds_on_model :
  holds_C18 (model_case o_default g_shared 0 [EBasic; EPyObj]) = true
  /\ holds_C18 (model_case o_default g_json_shared 0 [EJson; EBasic; EPyObj]) = true
  /\ holds_C18 (model_case o_default g_mutual 0 [EBasic; EPyObj]) = true
  /\ holds_C18 (model_case o_default g_obj_ring 0 [EBasic; EPyObj]) = true
  /\ holds_C18 (model_case o_ignore g_obj_self 0 [EBasic; EPyObj]) = true
  /\ holds_C18 (model_case o_default g_obj_shared 0 [EBasic; EPyObj]) = true
  /\ holds_C18 (model_case o_default g_fset_key 0 [EBasic; EPyObj]) = true
  /\ holds_C18 (model_case o_ignore g_set_keys 0 [EBasic; EPyObj]) = true
  /\ fails_C18 (model_case o_default g_tuple_key 0 [EBasic]) = [(Some EBasic, ClValue)].
Proof. repeat split; vm_compute; reflexivity. Qed.
