(* Big-step model of the final edit script graphtage computes for a pair of trees:
   LeafNode/StringNode/NullNode.edits, ListNode.edits (FixedLengthSequenceEdit, EditDistance),
   KeyValuePairNode.edits / KeyValuePairEdit, MultiSetNode.edits / MultiSetEdit,
   FixedKeyDictNode.edits / _child_edits.  Costs are final (fully tightened) own costs.
   Oracles (validated, never trusted): the matching scipy returned for a MultiSetEdit and the hash-order
   in which FixedKeyDictNode._child_edits emits its removals, keyed by the positions of the two nodes. *)
From Coq Require Import ZArith List Bool Lia.
Require Import GT.PyBase GT.Data GT.ScriptSpec GT.EdEngine GT.LevModel GT.EdTypes GTgen.EdGen GT.EdParams.
Import ListNotations.
Open Scope Z_scope.

Inductive err := ENoOracle | EBadOracle | EUnsupported | ECap.
Inductive res := OK (e : edit) | Err (x : err).

Definition path := list nat.
Fixpoint path_eqb (a b : path) : bool :=
  match a, b with
  | [], [] => true
  | x :: a', y :: b' => Nat.eqb x y && path_eqb a' b'
  | _, _ => false
  end.

Record oracle := {
  o_match : list (path * path * list (nat * nat));   (* MultiSetEdit at (pa, pb): (from_index, to_index) in emitted order *)
  o_order : list (path * path * list nat)             (* FixedKeyDict at (pa, pb): removed children in emitted order *)
}.

Fixpoint lookup {V} (pa pb : path) (l : list (path * path * V)) : option V :=
  match l with
  | [] => None
  | (qa, qb, v) :: l' => if path_eqb pa qa && path_eqb pb qb then Some v else lookup pa pb l'
  end.


(* f stays outside the fixpoint so that the guard checker sees through it (as for List.map) *)
Definition mapi {A B} (f : nat -> A -> B) (l : list A) : list B :=
  (fix go (n : nat) (l : list A) {struct l} : list B :=
     match l with [] => [] | x :: l' => f n x :: go (S n) l' end) 0%nat l.

Definition res_cost (r : res) : option Z := match r with OK e => Some (cost e) | Err _ => None end.

Fixpoint all_some {A} (l : list (option A)) : option (list A) :=
  match l with
  | [] => Some []
  | Some x :: l' => match all_some l' with Some r => Some (x :: r) | None => None end
  | None :: _ => None
  end.

Definition mget {A} (m : list (list A)) (i j : nat) : option A :=
  match nth_error m i with Some row => nth_error row j | None => None end.

(* ---------------------------------------------------------------- strings *)
Fixpoint common_prefix_len {A B} (eqb : A -> B -> bool) (a : list A) (b : list B) : nat :=
  match a, b with
  | x :: a', y :: b' => if eqb x y then S (common_prefix_len eqb a' b') else O
  | _, _ => O
  end.

Definition trim {A B} (eqb : A -> B -> bool) (a : list A) (b : list B) : nat * nat :=
  let p := common_prefix_len eqb a b in
  let s := common_prefix_len eqb (rev (skipn p a)) (rev (skipn p b)) in
  (p, s).

Definition middle {A} (p s : nat) (l : list A) : list A := firstn (length l - p - s) (skipn p l).

(* string_edit_distance(s, t): EditDistance over one-character StringNodes, penalty 0 *)
Definition char_cost (c d : Z) : Z := if c =? d then 0 else 1.    (* StringNode.edits on two 1-char strings *)

Definition str_script (s t : str) : Z * list sop :=
  let '(p, q) := trim Z.eqb s t in
  let s' := middle p q s in
  let t' := middle p q t in
  let rc := map (fun _ => 1) s' in
  let ic := map (fun _ => 1) t' in
  let mcs := map (fun d => map (fun c => char_cost c d) s') t' in
  let ops := alignment rc ic mcs in
  let sops := map (fun o => match o with
                            | OMatch c r => let x := nth c s' 0 in let y := nth r t' 0 in
                                            if x =? y then SKeep x else SSub x y
                            | ORem c => SDel (nth c s' 0)
                            | OIns r => SAdd (nth r t' 0)
                            end) ops in
  (final_cost rc ic mcs,
   map SKeep (firstn p s) ++ sops ++ map SKeep (skipn (length s - q) s)).

(* ---------------------------------------------------------------- leaves *)
Definition leaf_script (x : leaf) (a b : tree) : res :=
  match lk x, b with
  | KNull, Leaf y => match lk y with KNull => OK (EMatch 0) | _ => OK (EReplace (replace_cost a b)) end
  | KStr, Leaf y =>
      match lk y with
      | KStr => if str_eqb (ltext x) (ltext y) then OK (EMatch 0)
                else if Nat.eqb (length (ltext x)) 1 && Nat.eqb (length (ltext y)) 1 then OK (EMatch 1)
                else let '(c, ops) := str_script (ltext x) (ltext y) in OK (EStr c ops)
      | _ => OK (EMatch (leaf_match_cost x y))
      end
  | _, Leaf y => OK (EMatch (leaf_match_cost x y))
  | _, _ => OK (EReplace (replace_cost a b))
  end.

Definition dummy : tree := Leaf {| lk := KNull; ltext := []; lnum := 0; lexp := 0 |}.

(* ---------------------------------------------------------------- lists *)
Definition fixed_len_subs (cs ds : list tree) (M : list (list res)) : option (list sub) :=
  let n := length cs in
  let m := length ds in
  let pairs := map (fun i => match mget M i i with Some (OK e) => Some (SPair i i e) | _ => None end)
                   (seq 0 (Nat.min n m)) in
  match all_some pairs with
  | None => None
  | Some ps =>
      let rems := if Nat.ltb m n
                  then map (fun i => SRem i (remove_cost (nth i cs dummy) 1)) (seq (remove_from_pos n m) (n - remove_from_pos n m))
                  else [] in
      let inss := if Nat.ltb n m
                  then map (fun j => SIns j (insert_cost (nth j ds dummy) 1)) (seq (insert_from_pos n m) (m - insert_from_pos n m))
                  else [] in
      Some (ps ++ rems ++ inss)
  end.

Definition edit_dist_script (penalty : Z) (cs ds : list tree) (M : list (list res)) : res :=
  let '(p, q) := trim node_eqb cs ds in
  let cs' := middle p q cs in
  let ds' := middle p q ds in
  let n := length cs in
  let m := length ds in
  let rc := map (fun c => remove_cost c penalty) cs' in
  let ic := map (fun d => insert_cost d penalty) ds' in
  let cells := map (fun r => map (fun c => mget M (p + c) (p + r)) (seq 0 (length cs'))) (seq 0 (length ds')) in
  match all_some (map (fun row => all_some (map (fun x => match x with Some r => res_cost r | None => None end) row)) cells) with
  | None => Err ENoOracle
  | Some mcs =>
      let ops := alignment rc ic mcs in
      let subs := map (fun o => match o with
                                | OMatch c r => match mget M (p + c) (p + r) with
                                                | Some (OK e) => SPair (p + c) (p + r) e
                                                | _ => SPair (p + c) (p + r) (EMatch 0)
                                                end
                                | ORem c => SRem (p + c) (nth c rc 0)
                                | OIns r => SIns (p + r) (nth r ic 0)
                                end) ops in
      OK (EComp KEditDist (final_cost rc ic mcs)
            (map (fun i => SPair i i (EMatch 0)) (seq 0 p) ++ subs ++
             map (fun k => SPair (n - q + k) (m - q + k) (EMatch 0)) (seq 0 q)))
  end.

(* ---------------------------------------------------------------- multisets *)
Definition nat_in (x : nat) (l : list nat) : bool := existsb (Nat.eqb x) l.

Fixpoint find_index {A} (f : A -> bool) (l : list A) (n : nat) : option nat :=
  match l with [] => None | x :: l' => if f x then Some n else find_index f l' (S n) end.

(* the key pre-matching loop of MultiSetEdit.__init__ (auto_match_keys) *)
Fixpoint prematch (cs : list tree) (i : nat) (ds : list tree) (used : list nat) : list (nat * nat) :=
  match cs with
  | [] => []
  | f :: cs' =>
      if is_kvp f
      then match find_index (fun t => node_eqb (kvp_key f) (kvp_key t)) ds 0 with
           | Some j => if nat_in j used then prematch cs' (S i) ds used
                       else (i, j) :: prematch cs' (S i) ds (j :: used)
           | None => prematch cs' (S i) ds used
           end
      else prematch cs' (S i) ds used
  end.

Fixpoint distinct_nats (l : list nat) : bool :=
  match l with [] => true | x :: l' => negb (nat_in x l') && distinct_nats l' end.


Definition multiset_script (O : oracle) (pa pb : path) (amk : bool) (cs ds : list tree) (M : list (list res)) : res :=
  let pre := if amk then prematch cs 0 ds [] else [] in
  let fl := filter (fun i => negb (nat_in i (map fst pre))) (seq 0 (length cs)) in     (* from_set after pre-matching *)
  let tl := filter (fun j => negb (nat_in j (map snd pre))) (seq 0 (length ds)) in
  let eq_ij := fun i j => node_eqb (nth i cs dummy) (nth j ds dummy) in
  let exact := flat_map (fun i => match find (fun j => eq_ij i j) tl with Some j => [(i, j)] | None => [] end) fl in
  let R := filter (fun i => negb (existsb (fun j => eq_ij i j) tl)) fl in              (* to_remove *)
  let I := filter (fun j => negb (existsb (fun i => eq_ij i j) fl)) tl in              (* to_insert *)
  let get := fun (ij : nat * nat) => match mget M (fst ij) (snd ij) with
                                     | Some (OK e) => Some (SPair (fst ij) (snd ij) e) | _ => None end in
  let matching :=
      match R, I with
      | [], _ | _, [] => Some []
      | _, _ => match lookup pa pb (o_match O) with
                | Some mt =>
                    if forallb (fun xy => Nat.ltb (fst xy) (length R) && Nat.ltb (snd xy) (length I)) mt
                       && distinct_nats (map fst mt) && distinct_nats (map snd mt)
                    then Some (map (fun xy => (nth (fst xy) R 0%nat, nth (snd xy) I 0%nat)) mt)
                    else None
                | None => None
                end
      end in
  match matching with
  | None => match lookup pa pb (o_match O) with None => Err ENoOracle | Some _ => Err EBadOracle end
  | Some mt =>
      match all_some (map get pre), all_some (map get mt) with
      | Some pre_subs, Some mt_subs =>
          let rem_left := filter (fun i => negb (nat_in i (map fst mt))) R in
          let ins_left := filter (fun j => negb (nat_in j (map snd mt))) I in
          let rcost := fun i => remove_cost (nth i cs dummy) 1 in
          let icost := fun j => insert_cost (nth j ds dummy) 1 in
          let own := zsum (map sub_cost mt_subs) + zsum (map sub_cost pre_subs) +
                     multiset_leftover_cost (map rcost R) (map icost I) (map rcost rem_left) (map icost ins_left) in
          OK (EComp KMultiSet own
                (map (fun ij => SPair (fst ij) (snd ij) (EMatch 0)) exact ++ pre_subs ++ mt_subs ++
                 map (fun i => SRem i (rcost i)) rem_left ++ map (fun j => SIns j (icost j)) ins_left))
      | _, _ => Err ENoOracle
      end
  end.

(* ---------------------------------------------------------------- fixed-key dictionaries *)
Definition fixed_dict_script (O : oracle) (pa pb : path) (a b : tree) (cs ds : list tree) (M : list (list res)) : res :=
  let partner := fun c => find_index (fun d => node_eqb (kvp_key c) (kvp_key d)) ds 0 in
  let shared := flat_map (fun i => match partner (nth i cs dummy) with Some j => [(i, j)] | None => [] end)
                         (seq 0 (length cs)) in
  let unshared := filter (fun i => match partner (nth i cs dummy) with Some _ => false | None => true end)
                         (seq 0 (length cs)) in
  let inserted := filter (fun j => negb (existsb (fun c => node_eqb (kvp_key c) (kvp_key (nth j ds dummy))) cs))
                         (seq 0 (length ds)) in
  let order :=
      if fixed_dict_removals_in_hash_order
      then match unshared with
           | [] | [_] => Some unshared
           | _ => match lookup pa pb (o_order O) with
                  | Some ord => if nat_list_eqb (sort_nat ord) unshared then Some ord else None
                  | None => Some unshared     (* not emitted by the run: only its cost is used, which does not depend on the order *)
                  end
           end
      else Some unshared in
  let get := fun (ij : nat * nat) =>
      if node_eqb (nth (fst ij) cs dummy) (nth (snd ij) ds dummy) then Some (SPair (fst ij) (snd ij) (EMatch 0))
      else match mget M (fst ij) (snd ij) with
           | Some (OK e) => Some (SPair (fst ij) (snd ij) e) | _ => None end in
  match order, all_some (map get shared) with
  | Some ord, Some sh =>
      let subs := sh ++ map (fun i => SRem i (remove_cost (nth i cs dummy) 1)) ord ++
                  map (fun j => SIns j (insert_cost (nth j ds dummy) 1)) inserted in
      let total := zsum (map sub_cost subs) in
      if total <=? size a + 1 + size b then OK (EComp KFixedDict total subs) else Err ECap
  | None, _ => match lookup pa pb (o_order O) with None => Err ENoOracle | Some _ => Err EBadOracle end
  | _, None => Err ENoOracle
  end.

(* ---------------------------------------------------------------- the script *)
Fixpoint script (O : oracle) (pa pb : path) (a b : tree) {struct a} : res :=
  match a with
  | Leaf x => leaf_script x a b
  | Lst ale alsl cs =>
      let ds := match b with Lst _ _ ds => ds | _ => [] end in
      let children_eq :=
          (fix go (xs ys : list tree) : bool :=
             match xs, ys with
             | [], [] => true
             | x :: xs', y :: ys' => node_eqb x y && go xs' ys'
             | _, _ => false
             end) cs ds in
      match list_dispatch_gen (match b with Lst _ _ _ => true | _ => false end) children_eq ale alsl
                              (zlen cs) (zlen ds) (all_leaves cs) (all_leaves ds) with
      | LMatch0 => OK (EMatch 0)
      | LReplace => OK (EReplace (replace_cost a b))
      | LFixed =>
          let M := mapi (fun i c => mapi (fun j d => script O (pa ++ [i]) (pb ++ [j]) c d) ds) cs in
          match fixed_len_subs cs ds M with
          | Some subs => OK (EComp KFixedLen (zsum (map sub_cost subs)) subs)
          | None => Err ENoOracle
          end
      | LEditDist penalty =>
          let M := mapi (fun i c => mapi (fun j d => script O (pa ++ [i]) (pb ++ [j]) c d) ds) cs in
          edit_dist_script penalty cs ds M
      end
  | Kvp ake k v =>
      match b with
      | Kvp _ k' v' =>
          if ake || node_eqb k k'
          then
            let ke := if node_eqb k k' then OK (EMatch 0) else script O (pa ++ [0%nat]) (pb ++ [0%nat]) k k' in
            let ve := if node_eqb v v' then OK (EMatch 0) else script O (pa ++ [1%nat]) (pb ++ [1%nat]) v v' in
            match ke, ve with
            | OK e1, OK e2 => OK (EComp KKvp (cost e1 + cost e2) [SPair 0 0 e1; SPair 1 1 e2])
            | Err x, _ | _, Err x => Err x
            end
          else OK (EReplace (replace_cost a b))
      | _ => Err EUnsupported
      end
  | MSet amk cs =>
      match b with
      | MSet _ ds =>
          if (match cs, ds with [], [] => true | _, _ => false end) || node_eqb a b
          then OK (EMatch 0)
          else
            let M := mapi (fun i c => mapi (fun j d => script O (pa ++ [i]) (pb ++ [j]) c d) ds) cs in
            multiset_script O pa pb amk cs ds M
      | _ => OK (EReplace (replace_cost a b))
      end
  | FDict cs =>
      match b with
      | FDict ds =>
          if (match cs, ds with [], [] => true | _, _ => false end) ||
             (forallb (fun c => existsb (fun d => node_eqb c d) ds) cs &&
              forallb (fun d => existsb (fun c => node_eqb c d) cs) ds)
          then OK (EMatch 0)
          else
            let M := mapi (fun i c => mapi (fun j d => script O (pa ++ [i]) (pb ++ [j]) c d) ds) cs in
            fixed_dict_script O pa pb a b cs ds M
      | MSet _ _ => Err EUnsupported
      | _ => OK (EReplace (replace_cost a b))
      end
  end.

(* ---------------------------------------------------------------- correspondence *)
Fixpoint sop_eqb (a b : sop) : bool :=
  match a, b with
  | SKeep c, SKeep d | SDel c, SDel d | SAdd c, SAdd d => c =? d
  | SSub c c', SSub d d' => (c =? d) && (c' =? d')
  | _, _ => false
  end.

Fixpoint edit_eqb (x y : edit) {struct x} : bool :=
  match x, y with
  | EMatch c, EMatch d | EReplace c, EReplace d => c =? d
  | EStr c ops, EStr d ops' =>
      (c =? d) && (fix go (a b : list sop) : bool :=
                     match a, b with
                     | [], [] => true
                     | p :: a', q :: b' => sop_eqb p q && go a' b'
                     | _, _ => false
                     end) ops ops'
  | EComp k c ss, EComp k' d ss' =>
      kind_eqb k k' && (c =? d) &&
      (fix go (a b : list sub) : bool :=
         match a, b with
         | [], [] => true
         | SPair i j e :: a', SPair i' j' e' :: b' => Nat.eqb i i' && Nat.eqb j j' && edit_eqb e e' && go a' b'
         | SRem i c1 :: a', SRem i' c2 :: b' => Nat.eqb i i' && (c1 =? c2) && go a' b'
         | SIns j c1 :: a', SIns j' c2 :: b' => Nat.eqb j j' && (c1 =? c2) && go a' b'
         | _, _ => false
         end) ss ss'
  | _, _ => false
  end.

Record corr_case := { cc_case : script_case; cc_oracle : oracle }.

Definition corr_script (c : corr_case) : bool :=
  match script (cc_oracle c) [] [] (sc_a (cc_case c)) (sc_b (cc_case c)) with
  | OK e => edit_eqb e (sc_edit (cc_case c))
  | Err _ => false
  end.
