(* Model of the loaders (Filetype.build_tree of JSON, JSON5, YAML, plist) on top of the builder model, of
   PLISTNode.edits / <any node>.edits(PLISTNode), and the correspondence predicate of C09. *)
From Coq Require Import ZArith List Bool.
Require Import GT.PyBase GT.Data GT.ScriptSpec GT.BuildModel GT.LoadSpec GT.EdParams GT.ScriptModel.
Import ListNotations.
Open Scope Z_scope.

(* every one of the four loaders hands the parsed value to json.build_tree; plist wraps the result *)
Definition load (f : fmt) (o : bopts) (d : doc) : root := {| r_plist := is_plist f; r_tree := build o d |}.

Definition root_script (O : oracle) (a b : root) : option redit :=
  match r_plist a, r_plist b with
  | _, false => match script O [] [] (r_tree a) (r_tree b) with OK e => Some (RInner e) | Err _ => None end
  | true, true => match script O [] [] (r_tree a) (r_tree b) with OK e => Some (RBoth e) | Err _ => None end
  | false, true => Some (RReplace (replace_cost (r_tree a) (r_tree b)))   (* PLISTNode's size is its root's *)
  end.

Definition root_eqb (a b : root) : bool := Bool.eqb (r_plist a) (r_plist b) && tree_exact_eqb (r_tree a) (r_tree b).
(* PLISTNode.__eq__ / the other classes' __eq__ against a PLISTNode *)
Definition root_node_eqb (a b : root) : bool := Bool.eqb (r_plist a) (r_plist b) && node_eqb (r_tree a) (r_tree b).

Definition redit_eqb (x y : redit) : bool :=
  match x, y with
  | RInner e, RInner e' | RBoth e, RBoth e' => edit_eqb e e'
  | RReplace c, RReplace c' => c =? c'
  | _, _ => false
  end.

Record load_corr := {
  lr_case : load_case;
  lr_pair : fmt * fmt;       (* the pair (f1, f3) whose complete script for (d, x) was recorded *)
  lr_script : redit;
  lr_oracle : oracle
}.

Definition corr_C09 (r : load_corr) : bool :=
  let c := lr_case r in
  (* every loader produced exactly the tree the model builds from the data *)
  forallb (fun fr => root_eqb (snd fr) (load (fst fr) (lc_opts c) (lc_d c))) (lc_roots_d c) &&
  forallb (fun fr => root_eqb (snd fr) (load (fst fr) (lc_opts c) (lc_x c))) (lc_roots_x c) &&
  (* == between the loaded documents *)
  forallb (fun t => let '(f1, f2, eq, _) := t in
             Bool.eqb eq (root_node_eqb (load f1 (lc_opts c) (lc_d c)) (load f2 (lc_opts c) (lc_d c)))) (lc_dd c) &&
  (* the recorded script is the model's, and every recorded cost of that format pattern equals the model's *)
  match root_script (lr_oracle r) (load (fst (lr_pair r)) (lc_opts c) (lc_d c)) (load (snd (lr_pair r)) (lc_opts c) (lc_x c)) with
  | Some m => redit_eqb m (lr_script r) &&
              forallb (fun t => let '(f1, f3, k) := t in
                         if Bool.eqb (is_plist f1) (is_plist (fst (lr_pair r))) && Bool.eqb (is_plist f3) (is_plist (snd (lr_pair r)))
                         then k =? rcost m else true) (lc_dx c)
  | None => false
  end.
