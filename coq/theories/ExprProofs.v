(* C19: proofs about the expression machine, for ALL RPN token lists, heaps and locals.
   - direct:  every attribute read performed by get_member itself passed the guard, every resolved name
              is a local or whitelisted (unconditional);
   - core:    if no identifier of the expression that passes the guard names an attribute-reading member
              (format / format_map) and the environment holds data only, every event is safe;
   - hence the full statement once the guard refuses those members, the partial statement for expressions
     that do not mention them, and the refutation (D12) while the guard lets them through. *)
From Coq Require Import String List Bool ZArith Ascii Lia.
Require Import GT.PyBase GT.ExprSpec GTgen.ExprGen GT.ExprModel.
Import ListNotations.
Open Scope string_scope.

(* ------------------------------------------------------------------ statements *)
Definition safe_event (guard : string -> bool) (locals : env) (e : event) : Prop :=
  match e with
  | ReadAttr o v n => is_private n = false /\ (o = ByMember -> guard n = true)
  | Resolve n => In n (dom locals) \/ In n whitelist
  | Call _ _ => True
  | ReadAny => False
  end.

(* what holds of the evaluator's own reads, unconditionally *)
Definition direct_event (guard : string -> bool) (locals : env) (e : event) : Prop :=
  match e with
  | ReadAttr ByMember v n => guard n = true
  | ReadAttr ByOffset v n => n = "offset"
  | ReadAttr ByFormat v n => True
  | Resolve n => In n (dom locals) \/ In n whitelist
  | Call _ _ => True
  | ReadAny => True
  end.

Definition safe_eventb (guard : string -> bool) (locals : env) (e : event) : bool :=
  match e with
  | ReadAttr o v n => negb (is_private n) && match o with ByMember => guard n | _ => true end
  | Resolve n => mem_str n (dom locals) || mem_str n whitelist
  | Call _ _ => true
  | ReadAny => false
  end.

Lemma mem_str_In : forall n l, mem_str n l = true <-> In n l.
Proof.
  intros n l. unfold mem_str. rewrite existsb_exists. split.
  - intros [x [Hin Heq]]. apply String.eqb_eq in Heq. subst. exact Hin.
  - intros Hin. exists n. split; [exact Hin | apply String.eqb_refl].
Qed.

Local Opaque whitelist documented_whitelist operators.

Lemma safe_eventb_spec : forall g locals e, safe_eventb g locals e = true <-> safe_event g locals e.
Proof.
  intros g locals e. destruct e as [o v n | n | f a | ]; cbn.
  - rewrite andb_true_iff, negb_true_iff. split.
    + intros [H1 H2]. split; [exact H1 | intros ->; exact H2].
    + intros [H1 H2]. split; [exact H1 | destruct o; auto].
  - rewrite orb_true_iff, !mem_str_In. tauto.
  - split; auto.
  - split; [discriminate | tauto].
Qed.

(* ------------------------------------------------------------------ the translated guard and whitelist *)
Lemma dunder_private : forall n, is_dunder n = true -> is_private n = true.
Proof.
  intros n. unfold is_dunder, is_private. destruct n as [|a n]; [discriminate|].
  change (String.prefix "__" (String a n)) with (if Ascii.ascii_dec "_" a then String.prefix "_" n else false).
  change (String.prefix "_" (String a n)) with (if Ascii.ascii_dec "_" a then String.prefix "" n else false).
  destruct (Ascii.ascii_dec "_" a); [|auto]. intros _. destruct n; reflexivity.
Qed.

(* a name that passes the translated guard is not private *)
Theorem guard_sound : forall n, member_allowed n = true -> is_private n = false.
Proof.
  intros n H. unfold member_allowed, member_denied, py_startswith in H.
  unfold is_private. destruct (String.prefix "_" n); [|reflexivity].
  cbn in H. rewrite ?orb_true_r, ?orb_true_l in H. cbn in H. discriminate.
Qed.

Definition subset (a b : list string) : bool := forallb (fun n => mem_str n b) a.
Lemma subset_spec : forall a b, subset a b = true -> forall n, In n a -> In n b.
Proof. intros a b H n Hin. unfold subset in H. rewrite forallb_forall in H. apply mem_str_In. auto. Qed.

(* the code's table of globals is exactly the documented one (35 names; finite, by computation) *)
Theorem whitelist_documented : forall n, In n whitelist <-> In n documented_whitelist.
Proof.
  intros n. split; apply subset_spec; vm_compute; reflexivity.
Qed.

Lemma repaired_guard_sound : forall n, repaired_guard n = true -> is_private n = false /\ is_fmt n = false.
Proof.
  intros n H. unfold repaired_guard in H. apply andb_true_iff in H. destruct H as [H1 H2].
  apply negb_true_iff in H1. apply negb_true_iff in H2. auto.
Qed.

(* ------------------------------------------------------------------ events of one operation *)
Definition evs_of (r : opres) : list event := match r with RV _ e _ => e | RX _ e => e end.

Section Direct.
  Variable g : string -> bool.
  Variable h : heap.
  Variable locals : env.
  Let D := direct_event g locals.

  Lemma unk_D : forall args, Forall D (evs_of (unk args)).
  Proof. intros args. unfold unk. destruct (forallb cleanb args); cbn; repeat constructor. Qed.

  Ltac crush_D :=
    repeat (cbn [evs_of ret exc bool_val add_evs app];
            match goal with
            | |- Forall _ (evs_of (unk _)) => apply unk_D
            | |- Forall _ [] => constructor
            | |- Forall _ (evs_of (match ?x with _ => _ end)) => destruct x
            | |- Forall _ (evs_of (if ?x then _ else _)) => destruct x
            end).

  Lemma getitem_D : forall a b, Forall D (evs_of (getitem a b)).
  Proof. intros a b. unfold getitem. crush_D. Qed.

  Lemma binop_int_D : forall o x y, Forall D (evs_of (binop_int o x y)).
  Proof. intros o x y. unfold binop_int. crush_D. Qed.
  Lemma exec_bin_D : forall o a b, Forall D (evs_of (exec_bin o a b)).
  Proof.
    intros o a b. unfold exec_bin.
    destruct a; try apply binop_int_D; destruct b; try apply binop_int_D; crush_D.
  Qed.
  Lemma exec_cmp_D : forall c a b, Forall D (evs_of (exec_cmp c a b)).
  Proof. intros c a b. unfold exec_cmp. crush_D. Qed.
  Lemma exec_un_D : forall u a, Forall D (evs_of (exec_un u a)).
  Proof. intros u a. unfold exec_un. crush_D. Qed.
  Lemma call_builtin_D : forall n args, Forall D (evs_of (call_builtin n args)).
  Proof. intros n args. unfold call_builtin. crush_D. Qed.

  Lemma fmt_events_D : forall s, Forall D (fmt_events s).
  Proof.
    intros s. unfold fmt_events. apply Forall_app. split.
    - apply Forall_forall. intros e Hin. apply in_map_iff in Hin. destruct Hin as [r [<- _]]. exact I.
    - destruct (f_any s); repeat constructor.
  Qed.
  Lemma format_call_D : forall a s, Forall D (evs_of (format_call h a s)).
  Proof.
    intros a s. unfold format_call. destruct (is_ascii s); [|cbn; repeat constructor].
    destruct (format_string h a s) as [st|c st]; [|destruct (f_taint st)]; cbn; apply fmt_events_D.
  Qed.
  Lemma call_fmt_D : forall recv m args, Forall D (evs_of (call_fmt h recv m args)).
  Proof.
    intros recv m args. unfold call_fmt.
    repeat (cbn [evs_of ret exc];
            match goal with
            | |- Forall _ (evs_of (format_call _ _ _)) => apply format_call_D
            | |- Forall _ [] => constructor
            | |- Forall _ [ReadAny] => repeat constructor
            | |- Forall _ (evs_of (match ?x with _ => _ end)) => destruct x
            | |- Forall _ (evs_of (if ?x then _ else _)) => destruct x
            end).
  Qed.
  Lemma add_evs_D : forall pre r, Forall D pre -> Forall D (evs_of r) -> Forall D (evs_of (add_evs pre r)).
  Proof. intros pre r H1 H2. destruct r; cbn in *; apply Forall_app; auto. Qed.
  Lemma apply_call_D : forall f args, Forall D (evs_of (apply_call h f args)).
  Proof.
    intros f args. unfold apply_call.
    repeat (cbn [evs_of ret exc];
            match goal with
            | |- Forall _ (evs_of (unk _)) => apply unk_D
            | |- Forall _ (evs_of (add_evs _ _)) => apply add_evs_D; [repeat constructor|]
            | |- Forall _ (evs_of (call_fmt _ _ _ _)) => apply call_fmt_D
            | |- Forall _ (evs_of (call_builtin _ _)) => apply call_builtin_D
            | |- Forall _ [] => constructor
            | |- Forall _ (evs_of (match ?x with _ => _ end)) => destruct x
            | |- Forall _ (evs_of (if ?x then _ else _)) => destruct x
            end).
  Qed.
  Lemma exec_call_D : forall f b, Forall D (evs_of (exec_call h f b)).
  Proof.
    intros f b. unfold exec_call. destruct (unpack b) as [[args|]|]; [apply apply_call_D | | apply unk_D].
    destruct (cleanb f); [constructor | apply unk_D].
  Qed.
  Lemma get_member_D : forall obj m, Forall D (evs_of (get_member g h obj m)).
  Proof.
    intros obj m. unfold get_member. destruct m as [t|v].
    - destruct t; cbn; try constructor. destruct (g name) eqn:Hg; cbn; [|constructor].
      destruct (getattr_val h obj name); cbn; repeat constructor; exact Hg.
    - destruct (getattr_val h v "offset") as [x t|c]; [destruct t|]; cbn; repeat constructor.
  Qed.
  Lemma exec_sem_D : forall sem args, Forall D (evs_of (exec_sem g h sem args)).
  Proof.
    intros sem args. unfold exec_sem.
    repeat (cbn [evs_of ret exc];
            match goal with
            | |- Forall _ (evs_of (unk _)) => apply unk_D
            | |- Forall _ (evs_of (get_member _ _ _ _)) => apply get_member_D
            | |- Forall _ (evs_of (getitem _ _)) => apply getitem_D
            | |- Forall _ (evs_of (exec_call _ _ _)) => apply exec_call_D
            | |- Forall _ (evs_of (exec_un _ _)) => apply exec_un_D
            | |- Forall _ (evs_of (exec_bin _ _ _)) => apply exec_bin_D
            | |- Forall _ (evs_of (exec_cmp _ _ _)) => apply exec_cmp_D
            | |- Forall _ [] => constructor
            | |- Forall _ (evs_of (match ?x with _ => _ end)) => destruct x
            | |- Forall _ (evs_of (if ?x then _ else _)) => destruct x
            end).
  Qed.
End Direct.

(* ------------------------------------------------------------------ cleanliness is preserved *)
Lemma nth_clean : forall l n v, forallb cleanb l = true -> nth_error l n = Some v -> cleanb v = true.
Proof. intros l n v H Hn. rewrite forallb_forall in H. apply H. eapply nth_error_In; eauto. Qed.

Lemma dict_lookup_clean : forall k kvs v,
  forallb (fun kv => match kv with (k, x) => cleanb k && cleanb x end) kvs = true ->
  dict_lookup k kvs = Some (Some v) -> cleanb v = true.
Proof.
  intros k kvs v. induction kvs as [|[k' x] r IH]; cbn; [discriminate|].
  intros H. apply andb_true_iff in H. destruct H as [H1 H2]. apply andb_true_iff in H1. destruct H1 as [_ Hx].
  destruct (py_eq k k') as [[|]|]; [intros E; inversion E; subst; exact Hx | auto | discriminate].
Qed.

Lemma str_index_clean : forall s n v, str_index s n = Some v -> cleanb v = true.
Proof. intros s n v. unfold str_index. destruct (String.get n s); intros E; inversion E. reflexivity. Qed.

Lemma keys_clean : forall kvs,
  forallb (fun kv => match kv with (k, x) => cleanb k && cleanb x end) kvs = true -> forallb cleanb (map fst kvs) = true.
Proof.
  induction kvs as [|[k x] r IH]; cbn; [reflexivity|]. intros H.
  apply andb_true_iff in H. destruct H as [H1 H2]. apply andb_true_iff in H1. destruct H1 as [Hk _].
  rewrite Hk. cbn. auto.
Qed.

Lemma pairs_clean : forall l p, forallb cleanb l = true -> pairs_of l = Some p ->
  forallb (fun kv => match kv with (k, x) => cleanb k && cleanb x end) p = true.
Proof.
  induction l as [|a l IH]; cbn; intros p H E.
  - inversion E. reflexivity.
  - apply andb_true_iff in H. destruct H as [Ha Hl].
    destruct a; try discriminate;
      (destruct l0 as [|k [|x [|? ?]]]; try discriminate;
       destruct (pairs_of l) as [q|] eqn:Eq; try discriminate; inversion E; subst;
       cbn in Ha |- *; rewrite andb_true_r in Ha; rewrite Ha; cbn; eapply IH; eauto).
Qed.

Lemma app_clean : forall x y, forallb cleanb x = true -> forallb cleanb y = true -> forallb cleanb (x ++ y) = true.
Proof. intros x y Hx Hy. rewrite forallb_app, Hx, Hy. reflexivity. Qed.

(* ------------------------------------------------------------------ the machine preserves an invariant *)
Section Machine.
  Variable g : string -> bool.
  Variable h : heap.
  Variable locals : env.
  Variable P : event -> Prop.          (* what every logged event satisfies *)
  Variable I : item -> Prop.           (* what every stack item satisfies *)
  Hypothesis I_push : forall t, (forall n, t = TId n -> I (ITok t)) -> I (ITok t).
  Hypothesis HV : forall i, I i ->
    match get_value locals i with XV v e => I (IVal v) /\ Forall P e | XX _ e => Forall P e end.
  Hypothesis HC : forall l, Forall I l -> I (IVal (VTuple (all_values l))) /\ I (IVal (VList (all_values l))).
  Hypothesis HS : forall sem args, Forall I args ->
    match exec_sem g h sem args with RV v e _ => I (IVal v) /\ Forall P e | RX _ e => Forall P e end.

  Lemma expand_args_inv : forall flags items, Forall I items ->
    match expand_args locals flags items with (r, e, _) => Forall I r /\ Forall P e end.
  Proof.
    induction flags as [|f fr IH]; intros items Hi; cbn; [split; constructor|].
    destruct items as [|i ir]; [split; constructor|].
    inversion Hi as [|? ? Hi1 Hi2]; subst. specialize (IH ir Hi2).
    destruct f.
    - pose proof (HV i Hi1) as Hv. destruct (get_value locals i) as [v e|c e].
      + destruct (expand_args locals fr ir) as [[r e2] x]. destruct IH as [IH1 IH2]. destruct Hv as [Hv1 Hv2].
        split; [constructor; assumption | apply Forall_app; auto].
      + split; [constructor | exact Hv].
    - destruct (expand_args locals fr ir) as [[r e2] x]. destruct IH as [IH1 IH2].
      split; [constructor; assumption | assumption].
  Qed.

  Lemma take_top_inv : forall n stack, Forall I stack ->
    Forall I (fst (take_top n stack)) /\ Forall I (snd (take_top n stack)).
  Proof.
    intros n stack Hs. unfold take_top. destruct n; cbn [fst snd].
    - split; [apply Forall_rev; exact Hs | constructor].
    - rewrite <- (firstn_skipn (Datatypes.S n) stack) in Hs. apply Forall_app in Hs. destruct Hs as [H1 H2].
      split; [apply Forall_rev; exact H1 | exact H2].
  Qed.

  Definition tok_ok (t : token) : Prop := forall n, t = TId n -> I (ITok t).

  Lemma step_inv : forall t s, tok_ok t -> Forall I (m_stack s) -> Forall P (m_log s) ->
    match step g h locals t s with
    | MOk s' => Forall I (m_stack s') /\ Forall P (m_log s')
    | MExc _ l _ => Forall P l
    end.
  Proof.
    intros t s Ht Hs Hl. unfold step.
    destruct t; try (cbn; split; [constructor; [apply I_push; exact Ht | exact Hs] | exact Hl]).
    - (* FixedSizeCollection *)
      pose proof (take_top_inv size (m_stack s) Hs) as [Htop Hrest].
      destruct (take_top size (m_stack s)) as [top rest]. cbn [fst snd] in *.
      pose proof (expand_args_inv (map (fun _ => true) top) top Htop) as He.
      destruct (expand_args locals (map (fun _ => true) top) top) as [[vals evs] x]. destruct He as [He1 He2].
      destruct x as [c|]; [apply Forall_app; auto|].
      cbn. split; [|apply Forall_app; auto].
      constructor; [|exact Hrest]. destruct (HC vals He1) as [Ht1 Ht2]. destruct k; assumption.
    - (* operator *)
      destruct (find_op name operators) as [o|]; [|exact Hl].
      pose proof (take_top_inv (op_arity o) (m_stack s) Hs) as [Htop Hrest].
      destruct (take_top (op_arity o) (m_stack s)) as [top rest]. cbn [fst snd] in *.
      pose proof (expand_args_inv (op_expand o) top Htop) as He.
      destruct (expand_args locals (op_expand o) top) as [[args evs] x]. destruct He as [He1 He2].
      destruct x as [c|]; [apply Forall_app; auto|].
      destruct (negb (Nat.eqb (Datatypes.length args) (op_params o))); [apply Forall_app; auto|].
      pose proof (HS (op_sem o) args He1) as Hx.
      destruct (exec_sem g h (op_sem o) args) as [v e t|c e].
      + destruct Hx as [Hx1 Hx2]. cbn. split; [constructor; assumption | repeat (apply Forall_app; split); auto].
      + repeat (apply Forall_app; split); auto.
  Qed.

  Lemma run_inv : forall rpn s, Forall tok_ok rpn -> Forall I (m_stack s) -> Forall P (m_log s) ->
    match run g h locals rpn s with
    | MOk s' => Forall I (m_stack s') /\ Forall P (m_log s')
    | MExc _ l _ => Forall P l
    end.
  Proof.
    induction rpn as [|t r IH]; intros s Hr Hs Hl; cbn; [auto|].
    inversion Hr as [|? ? Ht Hr']; subst.
    pose proof (step_inv t s Ht Hs Hl) as Hstep.
    destruct (step g h locals t s) as [s1|c l tt]; [|exact Hstep].
    destruct Hstep as [H1 H2]. apply IH; assumption.
  Qed.

  Theorem eval_inv : forall rpn, Forall tok_ok rpn -> Forall P (log (eval_g g rpn h locals)).
  Proof.
    intros rpn Hr. unfold eval_g.
    pose proof (run_inv rpn m_init Hr (Forall_nil _) (Forall_nil _)) as Hrun.
    destruct (run g h locals rpn m_init) as [s|c l t]; [|exact Hrun].
    destruct Hrun as [Hs Hl]. unfold finish.
    destruct (m_stack s) as [|i [|j r]]; try exact Hl.
    inversion Hs as [|? ? Hi _]; subst.
    destruct i as [t|v]; [|exact Hl].
    destruct t; try exact Hl.
    pose proof (HV (ITok (TId name)) Hi) as Hv.
    destruct (get_value locals (ITok (TId name))) as [v e|c e]; cbn.
    - destruct Hv as [_ Hv]. apply Forall_app; auto.
    - apply Forall_app; auto.
  Qed.
End Machine.

(* ------------------------------------------------------------------ safety under a clean environment *)
Arguments is_fmt : simpl never.
Section Safe.
  Variable g : string -> bool.
  Variable h : heap.
  Variable locals : env.
  Hypothesis Hg : forall n, g n = true -> is_private n = false.
  Hypothesis Hheap : clean_heap h = true.
  Let S := safe_event g locals.

  Definition good (r : opres) : Prop :=
    match r with RV v e _ => cleanb v = true /\ Forall S e | RX _ e => Forall S e end.

  Lemma good_unk : forall args, forallb cleanb args = true -> good (unk args).
  Proof. intros args H. unfold unk. rewrite H. split; [reflexivity | constructor]. Qed.

  Ltac solve_clean :=
    first [ reflexivity | assumption
          | eapply nth_clean; [|eassumption]; eassumption
          | eapply dict_lookup_clean; [|eassumption]; eassumption
          | eapply str_index_clean; eassumption
          | cbn in *; rewrite ?andb_true_r in *;
            first [ assumption | reflexivity | apply keys_clean; assumption
                  | eapply pairs_clean; [|eassumption]; assumption ] ].

  Ltac crush_good :=
    repeat (match goal with
            | H : false = true |- _ => discriminate H
            | H : true = false |- _ => discriminate H
            | |- good (unk _) => apply good_unk; solve_clean
            | |- good (ret _) => unfold good, ret
            | |- good (exc _) => unfold good, exc
            | |- good (bool_val _) => unfold good, bool_val, ret
            | |- good (RV _ _ _) => unfold good
            | |- good (RX _ _) => unfold good
            | |- _ /\ Forall _ [] => split; [solve_clean | constructor]
            | |- Forall _ [] => constructor
            | |- good (match ?x with _ => _ end) => destruct x eqn:?
            | |- good (if ?x then _ else _) => destruct x eqn:?
            end).

  Lemma getitem_good : forall a b, cleanb a = true -> cleanb b = true -> good (getitem a b).
  Proof.
    intros a b Ha Hb. assert (Hab : forallb cleanb [a; b] = true) by (cbn; rewrite Ha, Hb; reflexivity).
    unfold getitem. destruct a; cbn [cleanb] in Ha; try discriminate; crush_good.
  Qed.

  Lemma binop_int_good : forall o x y, good (binop_int o x y).
  Proof. intros o x y. unfold binop_int. crush_good. Qed.

  Lemma exec_bin_good : forall o a b, cleanb a = true -> cleanb b = true -> good (exec_bin o a b).
  Proof.
    intros o a b Ha Hb. assert (Hab : forallb cleanb [a; b] = true) by (cbn; rewrite Ha, Hb; reflexivity).
    unfold exec_bin.
    destruct a; cbn [cleanb] in Ha; try discriminate; destruct b; cbn [cleanb] in Hb; try discriminate;
      try apply binop_int_good; crush_good;
      try (split; [cbn [cleanb]; apply app_clean; assumption | constructor]).
  Qed.

  Lemma exec_cmp_good : forall c a b, cleanb a = true -> cleanb b = true -> good (exec_cmp c a b).
  Proof.
    intros c a b Ha Hb. assert (Hab : forallb cleanb [a; b] = true) by (cbn; rewrite Ha, Hb; reflexivity).
    unfold exec_cmp. crush_good.
  Qed.

  Lemma exec_un_good : forall u a, cleanb a = true -> good (exec_un u a).
  Proof.
    intros u a Ha. assert (Hab : forallb cleanb [a] = true) by (cbn; rewrite Ha; reflexivity).
    unfold exec_un. crush_good.
  Qed.

  Lemma call_builtin_good : forall n args, forallb cleanb args = true -> good (call_builtin n args).
  Proof. intros n args Hargs. unfold call_builtin. crush_good. Qed.

  Lemma good_add_evs : forall pre r, Forall S pre -> good r -> good (add_evs pre r).
  Proof.
    intros pre r Hp Hr. destruct r; cbn in *.
    - destruct Hr as [Hv He]. split; [exact Hv | apply Forall_app; auto].
    - apply Forall_app; auto.
  Qed.

  Lemma apply_call_good : forall f args, cleanb f = true -> forallb cleanb args = true -> good (apply_call h f args).
  Proof.
    intros f args Hf Hargs.
    assert (Hall : forallb cleanb (f :: args) = true) by (cbn; rewrite Hf, Hargs; reflexivity).
    assert (Hcall : Forall S [Call f args]) by (repeat constructor).
    unfold apply_call. destruct f; cbn [cleanb] in Hf; try discriminate;
      try (rewrite Hall; unfold good, exc; constructor).
    - rewrite Hargs. apply good_add_evs; [exact Hcall | apply call_builtin_good; exact Hargs].
    - apply andb_true_iff in Hf. destruct Hf as [_ Hn]. apply negb_true_iff in Hn. rewrite Hn.
      apply good_add_evs; [exact Hcall | apply good_unk; exact Hall].
    - apply good_add_evs; [exact Hcall | apply good_unk; exact Hall].
  Qed.

  Lemma unpack_clean : forall b args, cleanb b = true -> unpack b = Some (Some args) -> forallb cleanb args = true.
  Proof.
    intros b args Hb. destruct b; cbn; intros E; inversion E; subst; cbn [cleanb] in Hb; auto using keys_clean.
  Qed.

  Lemma exec_call_good : forall f b, cleanb f = true -> cleanb b = true -> good (exec_call h f b).
  Proof.
    intros f b Hf Hb. assert (Hab : forallb cleanb [f; b] = true) by (cbn; rewrite Hf, Hb; reflexivity).
    unfold exec_call. destruct (unpack b) as [[args|]|] eqn:E.
    - apply apply_call_good; [exact Hf | eapply unpack_clean; eauto].
    - rewrite Hf. unfold good, exc. constructor.
    - apply good_unk. exact Hab.
  Qed.

  Lemma heap_attrs_clean : forall i, forallb (fun a => cleanb (snd a)) (heap_attrs h i) = true.
  Proof.
    intros i. unfold clean_heap in Hheap. revert Hheap. generalize h. induction h0 as [|[j a] r IH]; cbn; [reflexivity|].
    intros H. apply andb_true_iff in H. destruct H as [Ha Hr]. destruct (Nat.eqb i j); auto.
  Qed.

  Lemma assoc_clean : forall n (l : list (string * val)) v,
    forallb (fun a => cleanb (snd a)) l = true -> assoc n l = Some v -> cleanb v = true.
  Proof.
    intros n l v. induction l as [|[k x] r IH]; cbn; [discriminate|].
    intros H. apply andb_true_iff in H. destruct H as [Hx Hr].
    destruct (String.eqb n k); [intros E; inversion E; subst; exact Hx | auto].
  Qed.

  (* the member name passes the guard and does not name an attribute-reading member *)
  Definition ok_name (n : string) : Prop := g n = true -> is_fmt n = false.
  Definition ok_item (i : item) : Prop :=
    match i with IVal v => cleanb v = true | ITok (TId n) => ok_name n | ITok _ => True end.

  Lemma get_member_good : forall obj m, cleanb obj = true -> ok_item m -> good (get_member g h obj m).
  Proof.
    intros obj m Hobj Hm. unfold get_member. destruct m as [t|v].
    - destruct t; try (unfold good, exc; constructor).
      destruct (g name) eqn:Hgn; [|unfold good, exc; constructor].
      assert (Hp : is_private name = false) by (apply Hg; exact Hgn).
      assert (Hd : is_dunder name = false).
      { destruct (is_dunder name) eqn:E; [|reflexivity]. apply dunder_private in E. congruence. }
      assert (Hf : is_fmt name = false) by (apply Hm; exact Hgn).
      assert (Hev : Forall S [ReadAttr ByMember obj name]).
      { repeat constructor; [exact Hp | intros _; exact Hgn]. }
      unfold getattr_val. rewrite Hd.
      destruct obj; cbn [cleanb] in Hobj; try discriminate; cbn;
        try (split; [cbn; rewrite ?Hobj, ?Hf; reflexivity | exact Hev]); try exact Hev.
            destruct (assoc name (heap_attrs h id)) eqn:E; cbn.
      + split; [eapply assoc_clean; [apply heap_attrs_clean | exact E] | exact Hev].
      + exact Hev.
    - assert (Hev : Forall S [ReadAttr ByOffset v "offset"]).
      { repeat constructor. discriminate. }
      destruct (getattr_val h v "offset") as [x t|c]; [destruct t|]; cbn; exact Hev.
  Qed.

  Lemma good_opaque : good (RV VOpaque [] true).
  Proof. split; [reflexivity | constructor]. Qed.

  Lemma exec_sem_good : forall sem args, Forall ok_item args -> good (exec_sem g h sem args).
  Proof.
    intros sem args Hargs. unfold exec_sem.
    destruct args as [|a1 [|a2 [|a3 r]]].
    - destruct sem; apply good_opaque.
    - inversion Hargs as [|? ? H1 _]; subst. destruct a1 as [t|a]; destruct sem; try apply good_opaque.
      apply exec_un_good. exact H1.
    - inversion Hargs as [|? ? H1 H']; subst. inversion H' as [|? ? H2 _]; subst.
      destruct a1 as [t1|a]; [destruct sem; apply good_opaque|].
      cbn in H1.
      destruct sem; try apply good_opaque.
      + apply get_member_good; [exact H1 | exact H2].
      + destruct a2 as [t2|b2]; [apply good_opaque|]. apply getitem_good; assumption.
      + destruct a2 as [t2|b2]; [apply good_opaque|]. apply exec_call_good; assumption.
      + destruct a2 as [t2|b2]; [apply good_opaque|]. apply exec_bin_good; assumption.
      + destruct a2 as [t2|b2]; [apply good_opaque|]. apply exec_cmp_good; assumption.
      + destruct a2 as [t2|b2]; [apply good_opaque|]. cbn in H2.
        destruct (truthy a) as [[|]|]; [unfold good, ret; split; [assumption|constructor] ..
                                       | apply good_unk; cbn; rewrite H1, H2; reflexivity].
      + destruct a2 as [t2|b2]; [apply good_opaque|]. cbn in H2.
        destruct (truthy a) as [[|]|]; [unfold good, ret; split; [assumption|constructor] ..
                                       | apply good_unk; cbn; rewrite H1, H2; reflexivity].
      + destruct a2 as [t2|b2]; [apply good_opaque|]. cbn in H2.
        unfold good, ret. split; [cbn; rewrite H1, H2; reflexivity | constructor].
      + destruct a2 as [t2|b2]; [apply good_opaque|]. cbn in H2.
        destruct (truthy a) as [t|]; [apply getitem_good; [assumption | reflexivity]
                                     | apply good_unk; cbn; rewrite H1, H2; reflexivity].
    - destruct sem; try apply good_opaque; destruct a1; try apply good_opaque; destruct a2; apply good_opaque.
  Qed.

  Hypothesis Henv : clean_env locals = true.

  Lemma assoc_In_dom : forall n (l : env) v, assoc n l = Some v -> In n (dom l).
  Proof.
    intros n l v. induction l as [|[k x] r IH]; cbn; [discriminate|].
    destruct (String.eqb_spec n k); [intros _; left; auto | intros E; right; auto].
  Qed.

  Lemma get_value_good : forall i, ok_item i ->
    match get_value locals i with XV v e => ok_item (IVal v) /\ Forall S e | XX _ e => Forall S e end.
  Proof.
    intros i Hi. destruct i as [t|v]; cbn; [|split; [exact Hi | constructor]].
    destruct t; cbn; try (split; [reflexivity | constructor]); try constructor.
    destruct (assoc name locals) as [v|] eqn:E.
    - split; [eapply assoc_clean; [exact Henv | exact E] |].
      apply Forall_cons; [left; eapply assoc_In_dom; eauto | constructor].
    - destruct (mem_str name whitelist) eqn:Ew; [|constructor].
      split; [reflexivity|]. apply Forall_cons; [right; apply mem_str_In; exact Ew | constructor].
  Qed.

  Lemma all_values_clean : forall l, Forall ok_item l -> forallb cleanb (all_values l) = true.
  Proof.
    induction l as [|[t|v] r IH]; intros H; cbn; [reflexivity | |]; inversion H; subst; auto.
    cbn in *. rewrite H2. cbn. auto.
  Qed.

  Theorem eval_safe : forall rpn,
    (forall n, In n (idents rpn) -> ok_name n) ->
    Forall S (log (eval_g g rpn h locals)).
  Proof.
    intros rpn Hid.
    apply (eval_inv g h locals S ok_item).
    - intros t Ht. destruct t; try exact I. apply (Ht name). reflexivity.
    - exact get_value_good.
    - intros l Hl. pose proof (all_values_clean l Hl) as Hc. split; exact Hc.
    - intros sem args Hargs. apply exec_sem_good. exact Hargs.
    - clear -Hid. induction rpn as [|t r IH]; constructor.
      + intros n ->. apply Hid. left. reflexivity.
      + apply IH. intros n Hn. apply Hid. destruct t; cbn; auto.
  Qed.
End Safe.

(* ------------------------------------------------------------------ the evaluator's own reads (unconditional) *)
Section DirectMachine.
  Variable g : string -> bool.
  Variable h : heap.
  Variable locals : env.

  Lemma get_value_D : forall i,
    match get_value locals i with
    | XV v e => True /\ Forall (direct_event g locals) e
    | XX _ e => Forall (direct_event g locals) e end.
  Proof.
    intros i. destruct i as [t|v]; cbn; [|split; [exact I | constructor]].
    destruct t; cbn; try (split; [exact I | constructor]); try constructor.
    destruct (assoc name locals) as [v|] eqn:E.
    - split; [exact I|]. apply Forall_cons; [left | constructor].
      clear -E. induction locals as [|[k x] r IH]; cbn in *; [discriminate|].
      destruct (String.eqb_spec name k); [left; auto | right; auto].
    - destruct (mem_str name whitelist) eqn:Ew; [|constructor].
      split; [exact I|]. apply Forall_cons; [right; apply mem_str_In; exact Ew | constructor].
  Qed.

  Theorem eval_direct : forall rpn, Forall (direct_event g locals) (log (eval_g g rpn h locals)).
  Proof.
    intros rpn.
    apply (eval_inv g h locals (direct_event g locals) (fun _ => True)).
    - intros; exact I.
    - intros i _. apply get_value_D.
    - intros; split; exact I.
    - intros sem args _. pose proof (exec_sem_D g h locals sem args) as H.
      destruct (exec_sem g h sem args); cbn in H; [split; [exact I | exact H] | exact H].
    - clear. induction rpn; constructor; [intros n _; exact I | assumption].
  Qed.
End DirectMachine.

(* ------------------------------------------------------------------ the property *)
(* every event of every evaluation over a data environment is safe *)
Definition C19_statement (g : string -> bool) : Prop :=
  forall rpn h locals, clean_heap h = true -> clean_env locals = true ->
  forall ev, In ev (log (eval_g g rpn h locals)) -> safe_event g locals ev.

Lemma is_fmt_format_names : forall n, is_fmt n = mem_str n format_names.
Proof. reflexivity. Qed.

(* core: any guard that is sound for privacy, on expressions none of whose guard-passing identifiers
   names an attribute-reading member *)
Theorem C19_core : forall g, (forall n, g n = true -> is_private n = false) ->
  forall rpn h locals, (forall n, In n (idents rpn) -> g n = true -> is_fmt n = false) ->
  clean_heap h = true -> clean_env locals = true ->
  forall ev, In ev (log (eval_g g rpn h locals)) -> safe_event g locals ev.
Proof.
  intros g Hg rpn h locals Hid Hh He ev Hin.
  pose proof (eval_safe g h locals Hg Hh He rpn Hid) as H.
  rewrite Forall_forall in H. apply H. exact Hin.
Qed.

Theorem C19_full_if_guard_denies_format_thm : guard_denies_format = true -> C19_statement member_allowed.
Proof.
  intros Hd rpn h locals Hh He ev Hin.
  apply (C19_core member_allowed guard_sound rpn h locals); auto.
  intros n _ Hn. destruct (is_fmt n) eqn:Ef; [|reflexivity].
  unfold guard_denies_format in Hd. rewrite forallb_forall in Hd.
  unfold is_fmt in Ef. apply mem_str_In in Ef. specialize (Hd n Ef). rewrite Hn in Hd. discriminate.
Qed.

(* D12 carve-out: expressions that do not mention format / format_map *)
Theorem C19_partial_thm : forall rpn h locals, mentions_format rpn = false ->
  clean_heap h = true -> clean_env locals = true ->
  forall ev, In ev (log (eval rpn h locals)) -> safe_event member_allowed locals ev.
Proof.
  intros rpn h locals Hm Hh He ev Hin.
  apply (C19_core member_allowed guard_sound rpn h locals); auto.
  intros n Hn _. rewrite is_fmt_format_names.
  unfold mentions_format in Hm. destruct (mem_str n format_names) eqn:E; [|reflexivity].
  assert (existsb (fun n => mem_str n format_names) (idents rpn) = true) as Hx
    by (apply existsb_exists; exists n; auto).
  congruence.
Qed.

(* the repair considered for D12 (also refuse format / format_map) is sufficient *)
Theorem C19_repair_sufficient : C19_statement repaired_guard.
Proof.
  intros rpn h locals Hh He ev Hin.
  apply (C19_core repaired_guard (fun n H => proj1 (repaired_guard_sound n H)) rpn h locals); auto.
  intros n _ Hn. apply (repaired_guard_sound n Hn).
Qed.

Theorem C19_direct_thm : forall rpn h locals ev, In ev (log (eval rpn h locals)) ->
  match ev with
  | ReadAttr ByMember v n => member_allowed n = true /\ is_private n = false
  | ReadAttr ByOffset v n => n = "offset"
  | Resolve n => In n (dom locals) \/ In n whitelist
  | _ => True
  end.
Proof.
  intros rpn h locals ev Hin.
  pose proof (eval_direct member_allowed h locals rpn) as H. rewrite Forall_forall in H.
  specialize (H ev Hin). destruct ev as [o v n| n | f a |]; cbn in H; auto.
  destruct o; auto. split; [exact H | apply guard_sound; exact H].
Qed.

(* ------------------------------------------------------------------ witnesses *)
Definition wit_heap : heap := [(0%nat, [("pub", VInt 1); ("_x", VInt 42)])].
Definition wit_locals : env := [("o", VObj 0); ("d", VDict [(VStr "a", VObj 0)])].
(* '{0._x}'.format(o) *)
Definition wit_format : list token :=
  [TStr "{0._x}"; TId "format"; TOp "MEMBER_ACCESS"; TId "o"; TColl 1 CTuple; TOp "FUNCTION_CALL"].
(* '{a._x}'.format_map(d) *)
Definition wit_format_map : list token :=
  [TStr "{a._x}"; TId "format_map"; TOp "MEMBER_ACCESS"; TId "d"; TColl 1 CTuple; TOp "FUNCTION_CALL"].

Definition refutes (g : string -> bool) (rpn : list token) (h : heap) (locals : env) : bool :=
  clean_heap h && clean_env locals && existsb (fun e => negb (safe_eventb g locals e)) (log (eval_g g rpn h locals)).

Lemma refutes_spec : forall g rpn h locals, refutes g rpn h locals = true ->
  clean_heap h = true /\ clean_env locals = true /\
  exists ev, In ev (log (eval_g g rpn h locals)) /\ ~ safe_event g locals ev.
Proof.
  intros g rpn h locals H. unfold refutes in H.
  apply andb_true_iff in H. destruct H as [H H3]. apply andb_true_iff in H. destruct H as [H1 H2].
  split; [exact H1|]. split; [exact H2|].
  apply existsb_exists in H3. destruct H3 as [ev [Hin Hev]]. exists ev. split; [exact Hin|].
  intros Hs. apply safe_eventb_spec in Hs. rewrite Hs in Hev. discriminate.
Qed.

(* D12: while the guard lets format or format_map through, the full statement is false *)
Theorem C19_refuted_if_not_thm : guard_denies_format = false ->
  exists rpn h locals, clean_heap h = true /\ clean_env locals = true /\
  exists ev, In ev (log (eval rpn h locals)) /\ ~ safe_event member_allowed locals ev.
Proof.
  unfold guard_denies_format, fmt_methods. cbn [forallb]. intros H.
  destruct (member_allowed "format") eqn:E1.
  - exists wit_format, wit_heap, wit_locals. apply refutes_spec.
    first [ vm_compute; reflexivity | exfalso; vm_compute in E1; discriminate E1 ].
  - destruct (member_allowed "format_map") eqn:E2; [|cbn in H; discriminate H].
    exists wit_format_map, wit_heap, wit_locals. apply refutes_spec.
    first [ vm_compute; reflexivity | exfalso; vm_compute in E2; discriminate E2 ].
Qed.

(* the data-environment hypothesis cannot be dropped: an object exposing an ordinary Python function
   (here a generator method, as every TreeNode does) lets control escape (D20) *)
Definition wit_heap_foreign : heap := [(0%nat, [("walk", VForeign); ("_x", VInt 42)])].
(* (o.walk)(o) *)
Definition wit_foreign : list token :=
  [TId "o"; TId "walk"; TOp "MEMBER_ACCESS"; TId "o"; TColl 1 CTuple; TOp "FUNCTION_CALL"].
Theorem C19_needs_clean_env_thm :
  exists rpn h locals, mentions_format rpn = false /\ clean_env locals = true /\
  In ReadAny (log (eval rpn h locals)).
Proof.
  exists wit_foreign, wit_heap_foreign, wit_locals.
  split; [reflexivity|]. split; [reflexivity|].
  assert (existsb (fun e => match e with ReadAny => true | _ => false end)
                  (log (eval wit_foreign wit_heap_foreign wit_locals)) = true) as H by (vm_compute; reflexivity).
  apply existsb_exists in H. destruct H as [e [Hin He]]. destruct e; try discriminate. exact Hin.
Qed.

(* ------------------------------------------------------------------ the hypotheses are satisfiable *)
(* o.pub + 1 over the witness environment: a clean environment with a private attribute, a format-free
   expression, and a log that really contains a member read and a resolution *)
Definition ex_rpn : list token := [TId "o"; TId "pub"; TOp "MEMBER_ACCESS"; TInt 1; TOp "ADDITION"].
Example C19_partial_nontrivial :
  mentions_format ex_rpn = false /\ clean_heap wit_heap = true /\ clean_env wit_locals = true /\
  log (eval ex_rpn wit_heap wit_locals) = [Resolve "o"; ReadAttr ByMember (VObj 0) "pub"] /\
  r_out (eval ex_rpn wit_heap wit_locals) = OutItem (IVal (VInt 2)).
Proof. repeat split; vm_compute; reflexivity. Qed.

(* the repaired guard turns the D12 witness into a ParseError with no attribute read on the object *)
Example C19_repair_blocks_witness :
  r_out (eval_g repaired_guard wit_format wit_heap wit_locals) = OutExc "ParseError" /\
  log (eval_g repaired_guard wit_format wit_heap wit_locals) = [] /\
  r_out (eval_g repaired_guard ex_rpn wit_heap wit_locals) = OutItem (IVal (VInt 2)).
Proof. repeat split; vm_compute; reflexivity. Qed.

(* private members are refused by the translated guard, whatever the object *)
Example C19_private_member_refused :
  r_out (eval [TId "o"; TId "_x"; TOp "MEMBER_ACCESS"] wit_heap wit_locals) = OutExc "ParseError" /\
  log (eval [TId "o"; TId "_x"; TOp "MEMBER_ACCESS"] wit_heap wit_locals) = [Resolve "o"].
Proof. split; vm_compute; reflexivity. Qed.
