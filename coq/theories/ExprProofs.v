(* C19: proofs about the expression machine, for ALL RPN token lists, heaps and locals.
   - direct:  every attribute read performed by get_member itself passed the guard, every resolved name
              is a local or whitelisted (unconditional);
   - core:    if no identifier of the expression that passes the guard names an attribute-reading member
              (format / format_map) and the environment holds data only, every event is safe;
   - hence the full statement once the guard refuses those members, the partial statement for expressions
     that do not mention them, and the refutation (D12) while the guard lets them through. *)
From Coq Require Import String List Bool ZArith Ascii Lia.
Require Import GT.PyBase GT.ExprSpec GTgen.ExprGen GT.ExprModel.
Import ListNotations.
Open Scope string_scope.

(* ------------------------------------------------------------------ statements *)
Definition safe_event (guard : string -> bool) (locals : env) (e : event) : Prop :=
  match e with
  | ReadAttr o v n => is_private n = false /\ (o = ByMember -> guard n = true)
  | Resolve n => In n (dom locals) \/ In n whitelist
  | Call _ _ => True
  | ReadAny => False
  end.

(* what holds of the evaluator's own reads, unconditionally *)
Definition direct_event (guard : string -> bool) (locals : env) (e : event) : Prop :=
  match e with
  | ReadAttr ByMember v n => guard n = true
  | ReadAttr ByOffset v n => n = "offset"
  | ReadAttr ByFormat v n => True
  | Resolve n => In n (dom locals) \/ In n whitelist
  | Call _ _ => True
  | ReadAny => True
  end.

Definition safe_eventb (guard : string -> bool) (locals : env) (e : event) : bool :=
  match e with
  | ReadAttr o v n => negb (is_private n) && match o with ByMember => guard n | _ => true end
  | Resolve n => mem_str n (dom locals) || mem_str n whitelist
  | Call _ _ => true
  | ReadAny => false
  end.

Lemma mem_str_In : forall n l, mem_str n l = true <-> In n l.
Proof.
  intros n l. unfold mem_str. rewrite existsb_exists. split.
  - intros [x [Hin Heq]]. apply String.eqb_eq in Heq. subst. exact Hin.
  - intros Hin. exists n. split; [exact Hin | apply String.eqb_refl].
Qed.

Local Opaque whitelist documented_whitelist operators.

Lemma safe_eventb_spec : forall g locals e, safe_eventb g locals e = true <-> safe_event g locals e.
Proof.
  intros g locals e. destruct e as [o v n | n | f a | ]; cbn.
  - rewrite andb_true_iff, negb_true_iff. split.
    + intros [H1 H2]. split; [exact H1 | intros ->; exact H2].
    + intros [H1 H2]. split; [exact H1 | destruct o; auto].
  - rewrite orb_true_iff, !mem_str_In. tauto.
  - split; auto.
  - split; [discriminate | tauto].
Qed.

(* ------------------------------------------------------------------ the translated guard and whitelist *)
Lemma dunder_private : forall n, is_dunder n = true -> is_private n = true.
Proof.
  intros n. unfold is_dunder, is_private.
  destruct n as [|a n]; cbn; [discriminate|].
  destruct (Ascii.ascii_dec "_" a); [|intros H; exact H]. Show.
  intros _. destruct n; reflexivity.
Qed.

(* a name that passes the translated guard is not private *)
Theorem guard_sound : forall n, member_allowed n = true -> is_private n = false.
Proof.
  intros n H. unfold member_allowed, member_denied, py_startswith in H.
  unfold is_private. destruct (String.prefix "_" n); [|reflexivity].
  cbn in H. rewrite ?orb_true_r, ?orb_true_l in H. cbn in H. discriminate.
Qed.

Definition subset (a b : list string) : bool := forallb (fun n => mem_str n b) a.
Lemma subset_spec : forall a b, subset a b = true -> forall n, In n a -> In n b.
Proof. intros a b H n Hin. unfold subset in H. rewrite forallb_forall in H. apply mem_str_In. auto. Qed.

(* the code's table of globals is exactly the documented one (35 names; finite, by computation) *)
Theorem whitelist_documented : forall n, In n whitelist <-> In n documented_whitelist.
Proof.
  intros n. split; apply subset_spec; vm_compute; reflexivity.
Qed.

Lemma repaired_guard_sound : forall n, repaired_guard n = true -> is_private n = false /\ is_fmt n = false.
Proof.
  intros n H. unfold repaired_guard in H. apply andb_true_iff in H. destruct H as [H1 H2].
  apply negb_true_iff in H1. apply negb_true_iff in H2. auto.
Qed.
