(* C13 - executable model of graphtage's formatting protocol over the extracted tables (definitions only).

   * `resolve`   : formatter._get_formatter / get_formatter (own print_* by node MRO, sub-formatters,
                   grand-children, parents, then the global list), with the shared `tested` set threaded;
   * `step`      : what printing an item of a class through a formatter instance can lead to: the other
                   document's node in the same position (Match / Replace), the children through the same
                   formatter (edits that print their sub-edits), and the calls made by the resolved print method
                   (its summary), together with the three ways it can fail: no printer, the re-parenting guard
                   (a method wrapping live children), the leaf emitter undefined on a scalar kind;
   * `reach`     : the least set of configurations closed under `step` from the entry points of a mode;
   * `crun`/`cstep` : the same protocol on concrete trees of unbounded size (used by the proofs);
   * `corr_C13`  : agreement of one observed run with the model. *)
From Coq Require Import String Ascii List Bool ZArith.
Require Import GT.PyBase GT.DispatchSpec.
Import ListNotations.
Open Scope string_scope.

Section Model.
Variable T : dtables.

(* ---------------------------------------------------------------- tables *)
Definition fmt_row (c : string) := assoc c (t_fmt T).
Definition subs_of (c : string) : list string :=
  match fmt_row c with Some (s, _, _) => s | None => [] end.
Definition has_print (c name : string) : option string :=
  match fmt_row c with Some (_, _, ms) => assoc name ms | None => None end.
Definition fcls (f : finst) : string := hd "" f.
Definition sub_insts (f : finst) : list finst := map (fun s => s :: f) (subs_of (fcls f)).
Definition parent_of (f : finst) : option finst :=
  match f with _ :: p :: r => Some (p :: r) | _ => None end.

Definition pair_eqb (a b : string * string) : bool := String.eqb (fst a) (fst b) && String.eqb (snd a) (snd b).
Fixpoint assoc2 {B} (k : string * string) (l : list ((string * string) * B)) : option B :=
  match l with [] => None | (k', v) :: r => if pair_eqb k k' then Some v else assoc2 k r end.
Definition triple_eqb (a b : string * string * string) : bool :=
  pair_eqb (fst a) (fst b) && String.eqb (snd a) (snd b).
Fixpoint assoc3 {B} (k : string * string * string) (l : list ((string * string * string) * B)) : option B :=
  match l with [] => None | (k', v) :: r => if triple_eqb k k' then Some v else assoc3 k r end.

(* MRO of a class; the edited type of X is `EditedX(EditedTreeNode, X)` (TreeNodeMeta.edited_type) *)
Definition mro_of (cls : string) : list string :=
  match assoc cls (t_mro T) with
  | Some m => m
  | None => if starts_with "Edited" cls
            then match assoc (drop 6 cls) (t_mro T) with
                 | Some m => cls :: "EditedTreeNode" :: m
                 | None => []
                 end
            else []
  end.
(* the class an edited class was made from *)
Definition unedited (mro : list string) : string :=
  match mro with
  | c :: "EditedTreeNode" :: b :: _ => b
  | c :: _ => c
  | [] => ""
  end.

(* ---------------------------------------------------------------- resolution *)
Inductive rres := RFound (f : finst) (m : string) | RNone | RFuel.

(* for c in mro: own print_c, else the first sub-formatter having print_c *)
Fixpoint scan (mro : list string) (base : finst) : option (finst * string) :=
  match mro with
  | [] => None
  | c :: r =>
      let n := "print_" ++ c in
      match has_print (fcls base) n with
      | Some _ => Some (base, n)
      | None =>
          match find (fun s => is_some (has_print (fcls s) n)) (sub_insts base) with
          | Some s => Some (s, n)
          | None => scan r base
          end
      end
  end.

Fixpoint gf (fuel : nat) (mro : list string) (base : finst) (tested : list string) : rres * list string :=
  match fuel with
  | O => (RFuel, tested)
  | S k =>
      let '(r, tested1) :=
        if mem (fcls base) tested then (RNone, tested) else
        match scan mro base with
        | Some (f, m) => (RFound f m, tested)
        | None =>
            let t1 := fcls base :: map fcls (sub_insts base) ++ tested in
            (* `grandchildren.extend(sub_formatter.sub_formatters)` runs once per class of the MRO *)
            let gcs := flat_map (fun _ : string => flat_map sub_insts (sub_insts base)) mro in
            (fix loop (gs : list finst) (t : list string) : rres * list string :=
               match gs with
               | [] => (RNone, t)
               | g :: rest => match gf k mro g t with
                              | (RNone, t') => loop rest t'
                              | other => other
                              end
               end) gcs t1
        end in
      match r with
      | RNone => match parent_of base with
                 | Some p => gf k mro p tested1
                 | None => (RNone, tested1)
                 end
      | _ => (r, tested1)
      end
  end.

Definition RFUEL : nat := 40.

Definition resolve (mro : list string) (base : option finst) : rres :=
  let '(r, t) := match base with Some b => gf RFUEL mro b [] | None => (RNone, []) end in
  match r with
  | RNone =>
      (fix loop (gl : list string) (t : list string) : rres :=
         match gl with
         | [] => RNone
         | g :: rest => if mem g t then loop rest t
                        else match gf RFUEL mro [g] t with
                             | (RNone, t') => loop rest t'
                             | (o, _) => o
                             end
         end) (t_global T) t
  | o => o
  end.

(* ---------------------------------------------------------------- configurations *)
(* (formatter instance, class of the item, class whose children the item holds,
    may the item carry an edit that is printed: with_edits and an edited node) *)
Definition cfg := (finst * string * string * bool)%type.
Definition c_f (c : cfg) : finst := fst (fst (fst c)).
Definition c_cls (c : cfg) : string := snd (fst (fst c)).
Definition c_ko (c : cfg) : string := snd (fst c).
Definition c_we (c : cfg) : bool := snd c.
Definition cfg_eqb (a b : cfg) : bool :=
  String.eqb (c_cls a) (c_cls b) && String.eqb (c_ko a) (c_ko b) && Bool.eqb (c_we a) (c_we b)
  && slist_eqb (c_f a) (c_f b).
Definition memcfg (c : cfg) (l : list cfg) : bool := existsb (cfg_eqb c) l.
Fixpoint dedup_s (l : list string) : list string :=
  match l with [] => [] | x :: r => if mem x r then dedup_s r else x :: dedup_s r end.
Fixpoint dedup_c (l : list cfg) : list cfg :=
  match l with [] => [] | x :: r => if memcfg x r then dedup_c r else x :: dedup_c r end.

(* the grammar of an input type: (classes of the root, class -> classes of its children) *)
Definition gram := (list string * list (string * list string))%type.
Definition grammar (it : string) : gram :=
  match assoc it (t_grammar T) with Some g => g | None => ([], []) end.
(* the grammar under a dictionary strategy: mappings are FixedKeyDictNode with `none`, DictNode otherwise *)
Definition drop_class (x : string) (g : gram) : gram :=
  (filter (fun c => negb (String.eqb c x)) (fst g),
   map (fun pk : string * list string => (fst pk, filter (fun c => negb (String.eqb c x)) (snd pk)))
       (filter (fun pk : string * list string => negb (String.eqb (fst pk) x)) (snd g))).
Definition grammar_o (it : string) (ds : dstrategy) : gram :=
  match ds with
  | DSNone => drop_class "DictNode" (grammar it)
  | _ => drop_class "FixedKeyDictNode" (grammar it)
  end.
Definition roots (g : gram) : list string := fst g.
Definition kids (g : gram) (ko : string) : list string :=
  match assoc ko (snd g) with Some l => l | None => [] end.
(* classes that can stand in the same position as cls *)
(* the scalar classes a leaf of this input type can carry (pseudo-row "#kinds" of the grammar) *)
Definition KINDS : string := "#kinds".
Definition gkinds (g : gram) : list string := kids g KINDS.
(* ... and a mapping key of this input type (pseudo-row "#keykinds"; these scalar classes carry the prefix "key:") *)
Definition gkeykinds (g : gram) : list string := kids g "#keykinds".
Definition class_rows (g : gram) : list (string * list string) :=
  filter (fun pk : string * list string => negb (starts_with "#" (fst pk))) (snd g).
Definition alt (g : gram) (cls : string) : list string :=
  dedup_s (flat_map (fun pk : string * list string => if mem cls (snd pk) then snd pk else []) (class_rows g)
           ++ (if mem cls (roots g) then roots g else [])).
Definition classes (g : gram) : list string :=
  roots g ++ flat_map (fun pk : string * list string => fst pk :: snd pk) (class_rows g).
Definition root_class (of : string) : string :=
  match assoc of (t_default T) with Some r => r | None => "" end.

Inductive succ :=
  | SCfg (c : cfg)      (* printing continues there *)
  | SNoPrinter          (* no print method is resolved *)
  | SNoCopy             (* the resolved method wraps the item's live children in a new container *)
  | SEmit               (* the resolved leaf method does not return normally on a scalar class of an open finding *)
  | SEmitOther          (* ... on some other scalar class *)
  | SBad.               (* the model itself is stuck: unknown method, missing parent / sub-formatter, fuel *)

Definition apply_target (f : finst) (t : target) : option finst :=
  match t with
  | TSelf => Some f
  | TParent => parent_of f
  | TGrandParent => match parent_of f with Some p => parent_of p | None => None end
  | TSub k => nth_error (sub_insts f) k
  end.

Definition MFUEL : nat := 8.

Section Run.
Variable it : gram.   (* the grammar of the input type *)

(* the calls made by running method (owner, name) of instance f on an item of class cls holding ko's children *)
Fixpoint run_method (fuel : nat) (f : finst) (owner name cls ko : string) : list succ :=
  match fuel with
  | O => [SBad]
  | S k =>
      match assoc2 (owner, name) (t_methods T) with
      | None => [SBad]
      | Some s =>
          (match m_wrap s with WNoCopy => [SNoCopy] | _ => [] end) ++
          flat_map (fun a =>
            match a with
            | ACall t w =>
                match apply_target f t with
                | None => [SBad]
                | Some f' =>
                    match w with
                    | WSame => [SCfg (f', cls, ko, true)]
                    | WChild => map (fun x => SCfg (f', x, x, true)) (kids it ko)
                    | WFresh c => [SCfg (f', c, ko, true)]
                    end
                end
            | ARun o n w =>
                match (match o with Some x => Some x | None => has_print (fcls f) n end) with
                | None => [SBad]
                | Some ow =>
                    match w with
                    | WSame => run_method k f ow n cls ko
                    | WChild => flat_map (fun x => run_method k f ow n x x) (kids it ko)
                    | WFresh c => run_method k f ow n c ko
                    end
                end
            end) (m_actions s)
      end
  end.

Definition emit_all (owner name cls : string) : list (string * bool) :=
  match assoc3 (owner, name, cls) (t_emit T) with Some l => l | None => [] end.
(* restricted to the scalar classes this input type can carry *)
(* (a key/value-pair printer also has a row for the KEY position, probed with a key of every scalar class) *)
Definition emit_kinds (owner name cls : string) : list (string * bool) :=
  filter (fun kb : string * bool => mem (fst kb) (gkinds it)) (emit_all owner name cls) ++
  filter (fun kb : string * bool => mem (fst kb) (gkeykinds it)) (emit_all owner name "#key").
(* the scalar classes inside the classes of the open findings: null (D19, plistlib has no null) and
   bytes (YAMLStringFormatter.print_StringNode tests `'\n' in s` on a bytes object) *)
Definition kf_kind (k : string) : bool := String.eqb k "null" || String.eqb k "bytes".
Definition emit_ok (owner name cls : string) : bool := forallb (fun kb : string * bool => snd kb) (emit_kinds owner name cls).
Definition emit_kf_ok (owner name cls : string) : bool :=
  forallb (fun kb : string * bool => snd kb || negb (kf_kind (fst kb))) (emit_kinds owner name cls).
Definition emit_other_ok (owner name cls : string) : bool :=
  forallb (fun kb : string * bool => snd kb || kf_kind (fst kb)) (emit_kinds owner name cls).

Definition is_subedit (mro : list string) : bool := existsb (fun b => mem b mro) (t_subedit T).

Definition step (c : cfg) : list succ :=
  let mro := mro_of (c_cls c) in
  (* Match / Replace print the other document's node with_edits=False *)
  (if c_we c then map (fun a => SCfg (c_f c, a, a, false)) (alt it (c_cls c)) else []) ++
  (if c_we c && is_subedit mro then map (fun k => SCfg (c_f c, k, k, true)) (kids it (c_ko c)) else []) ++
  match resolve mro (Some (c_f c)) with
  | RFound f m =>
      match has_print (fcls f) m with
      | Some ow => (if emit_kf_ok ow m (c_cls c) then [] else [SEmit]) ++
                   (if emit_other_ok ow m (c_cls c) then [] else [SEmitOther]) ++
                   run_method MFUEL f ow m (c_cls c) (c_ko c)
      | None => [SBad]
      end
  | RNone => [SNoPrinter]
  | RFuel => [SBad]
  end.

(* ---- re-dispatch of the SAME item: self.parent.print of the same node and the like. A cycle of such calls never descends
   into the tree: unbounded recursion (RecursionError) ---- *)
Fixpoint same_method (fuel : nat) (f : finst) (owner name cls ko : string) : list cfg :=
  match fuel with
  | O => []
  | S k =>
      match assoc2 (owner, name) (t_methods T) with
      | None => []
      | Some s =>
          flat_map (fun a =>
            match a with
            | ACall t WSame => match apply_target f t with Some f' => [(f', cls, ko, true)] | None => [] end
            | ARun o n WSame =>
                match (match o with Some x => Some x | None => has_print (fcls f) n end) with
                | Some ow => same_method k f ow n cls ko
                | None => []
                end
            | _ => []
            end) (m_actions s)
      end
  end.
Definition same_next (c : cfg) : list cfg :=
  match resolve (mro_of (c_cls c)) (Some (c_f c)) with
  | RFound f m => match has_print (fcls f) m with
                  | Some ow => same_method MFUEL f ow m (c_cls c) (c_ko c)
                  | None => []
                  end
  | _ => []
  end.
Fixpoint same_closure (fuel : nat) (todo seen : list cfg) : list cfg :=
  match fuel with
  | O => seen
  | S k => match todo with
           | [] => seen
           | x :: r => if memcfg x seen then same_closure k r seen
                       else same_closure k (same_next x ++ r) (x :: seen)
           end
  end.
(* the configuration hands its item back to itself through same-item calls only *)
Definition sloop (c : cfg) : bool := memcfg c (same_closure 40 (same_next c) []).

Definition cfgs_of (l : list succ) : list cfg :=
  flat_map (fun s => match s with SCfg c => [c] | _ => [] end) l.

Fixpoint explore (fuel : nat) (todo seen : list cfg) : list cfg :=
  match fuel with
  | O => seen
  | S k =>
      match todo with
      | [] => seen
      | c :: r => if memcfg c seen then explore k r seen
                  else explore k (filter (fun x => negb (memcfg x seen)) (cfgs_of (step c)) ++ r) (c :: seen)
      end
  end.

Definition root_of (of : string) : finst := [of].   (* `of` : class of the root formatter *)

Definition entries (of : string) (m : omode) : list cfg :=
  match m with
  | MDiff => map (fun r => (root_of of, r, r, true)) (roots it)
  | MEdits => []
  | MDigest => map (fun c => (root_of of, c, c, true)) (classes it)
               ++ map (fun fc : string * string => ([fst fc], snd fc, snd fc, false)) (t_context T)
  end.

Definition EFUEL : nat := Nat.mul 200 200.
Definition reach (of : string) (m : omode) : list cfg := explore EFUEL (entries of m) [].

(* a set of configurations containing the entries and closed under step *)
Definition closed_check (S : list cfg) : bool :=
  forallb (fun c => forallb (fun c' => memcfg c' S) (cfgs_of (step c))) S.
Definition entries_in (of : string) (m : omode) (S : list cfg) : bool :=
  forallb (fun c => memcfg c S) (entries of m).

Definition is_err (k : succ) (s : succ) : bool :=
  match k, s with
  | SNoPrinter, SNoPrinter | SNoCopy, SNoCopy | SEmit, SEmit | SEmitOther, SEmitOther | SBad, SBad => true
  | _, _ => false
  end.
Definition cfg_has (k : succ) (c : cfg) : bool := existsb (is_err k) (step c).
(* a configuration is clean when printing it cannot fail in any of the modelled ways *)
Definition cfg_clean (c : cfg) : bool :=
  negb (cfg_has SNoPrinter c) && negb (cfg_has SNoCopy c) && negb (cfg_has SEmit c) && negb (cfg_has SBad c)
  && negb (cfg_has SEmitOther c).

(* ---- the known-finding classes, DEFINED BY THE MODEL on a configuration of the product ---- *)
(* D9: some reachable (formatter instance, class) resolves to a method that wraps live children *)
Definition kf_reparent_cfg (of : string) (m : omode) : bool := existsb (cfg_has SNoCopy) (reach of m).
(* D19 / bytes under YAML: some reachable leaf class is handed to an emitter that is undefined on null / bytes *)
Definition kf_emit_cfg (of : string) (m : omode) : bool := existsb (cfg_has SEmit) (reach of m).
(* neither: dispatch is not total, or the model is stuck *)
Definition other_err_cfg (of : string) (m : omode) : bool :=
  existsb (fun c => cfg_has SNoPrinter c || cfg_has SBad c || cfg_has SEmitOther c || sloop c) (reach of m).

Definition render_ok (of : string) (m : omode) : bool := forallb cfg_clean (reach of m).

(* ---------------------------------------------------------------- concrete trees *)
Inductive tree := Tr (cls : string) (ks : list tree).
Definition tcls (t : tree) : string := match t with Tr c _ => c end.
Definition tkids (t : tree) : list tree := match t with Tr _ k => k end.

Fixpoint conforms (t : tree) : bool :=
  match t with
  | Tr c ks => (fix all (l : list tree) : bool :=
                  match l with [] => true | k :: r => mem (tcls k) (kids it c) && conforms k && all r end) ks
  end.
Definition produced_by (t : tree) : bool := mem (tcls t) (roots it) && conforms t.

Fixpoint depth (t : tree) : nat :=
  match t with Tr _ ks => S (fold_right (fun k n => Nat.max (depth k) n) O ks) end.

(* the item of a configuration: its class is the configuration's, its children come from ko's grammar *)
Definition fits (c : cfg) (t : tree) : bool :=
  String.eqb (tcls t) (c_cls c) && forallb (fun k => mem (tcls k) (kids it (c_ko c)) && conforms k) (tkids t).

Fixpoint crun (fuel : nat) (f : finst) (owner name : string) (t : tree) (ko : string) : list (option (cfg * tree)) :=
  match fuel with
  | O => [None]
  | S k =>
      match assoc2 (owner, name) (t_methods T) with
      | None => [None]
      | Some s =>
          flat_map (fun a =>
            match a with
            | ACall tg w =>
                match apply_target f tg with
                | None => [None]
                | Some f' =>
                    match w with
                    | WSame => [Some ((f', tcls t, ko, true), t)]
                    | WChild => map (fun x => Some ((f', tcls x, tcls x, true), x)) (tkids t)
                    | WFresh c => [Some ((f', c, ko, true), Tr c (tkids t))]
                    end
                end
            | ARun o n w =>
                match (match o with Some x => Some x | None => has_print (fcls f) n end) with
                | None => [None]
                | Some ow =>
                    match w with
                    | WSame => crun k f ow n t ko
                    | WChild => flat_map (fun x => crun k f ow n x (tcls x)) (tkids t)
                    | WFresh c => crun k f ow n (Tr c (tkids t)) ko
                    end
                end
            end) (m_actions s)
      end
  end.

(* one step of the real protocol on a concrete item *)
Inductive cstep : cfg * tree -> cfg * tree -> Prop :=
  | cs_other c t t' :      (* Match / Replace print the node of the other document standing in the same position *)
      c_we c = true -> In (tcls t') (alt it (c_cls c)) -> conforms t' = true ->
      cstep (c, t) ((c_f c, tcls t', tcls t', false), t')
  | cs_subedit c t k :     (* an edit printing its sub-edits prints the children through the same formatter *)
      c_we c = true -> is_subedit (mro_of (c_cls c)) = true -> In k (tkids t) ->
      cstep (c, t) ((c_f c, tcls k, tcls k, true), k)
  | cs_method c t f m ow c' t' :   (* the calls of the resolved print method *)
      resolve (mro_of (c_cls c)) (Some (c_f c)) = RFound f m -> has_print (fcls f) m = Some ow ->
      In (Some (c', t')) (crun MFUEL f ow m t (c_ko c)) ->
      cstep (c, t) (c', t').

Inductive creach (s0 : cfg * tree) : cfg * tree -> Prop :=
  | cr_refl : creach s0 s0
  | cr_step s s' : creach s0 s -> cstep s s' -> creach s0 s'.

(* can printing this concrete item through this configuration fail in one of the modelled ways? *)
Definition node_ok (c : cfg) (t : tree) : bool :=
  match resolve (mro_of (c_cls c)) (Some (c_f c)) with
  | RFound f m =>
      match has_print (fcls f) m with
      | Some ow =>
          emit_ok ow m (c_cls c) &&
          negb (existsb (is_err SNoCopy) (run_method MFUEL f ow m (c_cls c) (c_ko c)) && negb (match tkids t with [] => true | _ => false end)) &&
          negb (existsb (is_err SBad) (run_method MFUEL f ow m (c_cls c) (c_ko c)))
      | None => false
      end
  | _ => false
  end.

(* entry points of a mode on a concrete document *)
Definition entry_ok (of : string) (m : omode) (c : cfg) (t : tree) : Prop :=
  match m with
  | MDiff => produced_by t = true /\ c = (root_of of, tcls t, tcls t, true)
  | MEdits => False
  | MDigest => (mem (tcls t) (classes it) = true /\ conforms t = true /\ c = (root_of of, tcls t, tcls t, true))
               \/ (exists fc, tkids t = [] /\ In (fc, tcls t) (t_context T) /\ c = ([fc], tcls t, tcls t, false))
  end.

End Run.

(* ---------------------------------------------------------------- one observed run against the model *)
Definition ores_eqb (r : rres) (o : option (finst * string * string)) : bool :=
  match r, o with
  | RFound f m, Some (f', m', ow) => slist_eqb f f' && String.eqb m m' && ostr_eqb (has_print (fcls f) m) ow
  | RNone, None => true
  | _, _ => false
  end.

(* the model's resolution equals the recorded one, and the MRO table agrees with the observed MRO *)
Definition event_resolves (e : event) : bool :=
  slist_eqb (mro_of (e_cls e)) (e_mro e) &&
  ores_eqb (resolve (e_mro e) (match e_base e with [] => None | b => Some b end)) (e_res e).

Inductive efail := FNone | FReparent | FEmit | FEmitOther | FLoop | FNoPrinter | FBad.
(* does the model predict that this dispatch ends in an exception? *)
Definition event_fail (it : gram) (e : event) : efail :=
  if e_is_edit e then FNone else
  match e_res e with
  | None => FNone         (* GraphtageFormatter.print falls back to node.print(printer) *)
  | Some (f, m, ow) =>
      let cls := unedited (e_mro e) in
      let calls := run_method it MFUEL f ow m cls cls in
      let ks := if starts_with "key:" (e_kind e) then emit_all ow m "#key" else emit_all ow m cls in
      if sloop (e_base e, cls, cls, true) then FLoop else
      match ks, assoc (e_kind e) ks with
      | _, Some false => if kf_kind (e_kind e) then FEmit else FEmitOther
      | _ :: _, None => FBad      (* a scalar class the generator did not probe *)
      | _, _ =>
          if existsb (is_err SNoCopy) calls && e_haskids e then FReparent
          else if existsb (is_err SBad) calls then FBad
          else FNone
      end
  end.
Definition efail_none (f : efail) : bool := match f with FNone => true | _ => false end.

Definition case_gram (c : c13_case) : gram := grammar_o (c_it c) (c_ds c).
Definition mode_reach (c : c13_case) : list cfg := reach (case_gram c) (root_class (c_of c)) (c_mode c).

(* every observed node dispatch lies inside the reachable set computed from the tables *)
Definition event_in_reach (c : c13_case) (S : list cfg) (e : event) : bool :=
  e_is_edit e ||
  existsb (fun x => slist_eqb (c_f x) (e_base e) && String.eqb (c_cls x) (unedited (e_mro e))) S.

Definition completed (c : c13_case) : bool := match c_out c with Completed _ => true | Raised _ _ _ => false end.

Definition grammar_ok (c : c13_case) : bool :=
  forallb (fun r => mem r (roots (case_gram c))) (c_roots c) &&
  forallb (fun pk : string * string => mem (snd pk) (kids (case_gram c) (fst pk))) (c_pairs c) &&
  forallb (fun k => mem k (gkinds (case_gram c)) || mem k (gkeykinds (case_gram c))) (c_kinds c).

(* S : the reachable set of the case's configuration (reach of its grammar, root formatter and mode) *)
Definition corr_C13 (S : list cfg) (c : c13_case) : bool :=
  grammar_ok c &&
  forallb event_resolves (c_events c) &&
  forallb (event_in_reach c S) (c_events c) &&
  (* rendering completes iff no dispatch is predicted to fail; an exception raised outside rendering (loader, diff
     engine) is outside this model: nothing printed so far may have been predicted to fail *)
  (let all_ok := forallb (fun e => efail_none (event_fail (case_gram c) e)) (c_events c) in
   match c_out c with
   | Completed _ => all_ok
   | Raised _ _ true => negb all_ok
   | Raised _ _ false => all_ok
   end) &&
  (* -e prints str(edit) only: no dispatch at all *)
  (match c_mode c with MEdits => match c_events c with [] => true | _ => false end | _ => true end).

(* ---- the known-finding classes on an observed run ---- *)
Definition raised_with (c : c13_case) (cls sub : string) : bool :=
  match c_out c with Raised k msg _ => String.eqb k cls && contains sub msg | _ => false end.
Definition kf_reparent (c : c13_case) : bool :=
  raised_with c "ValueError" "Parent is already assigned" &&
  existsb (fun e => match event_fail (case_gram c) e with FReparent => true | _ => false end) (c_events c).
Definition emit_fails_on (c : c13_case) (kind : string) : bool :=
  existsb (fun e => match event_fail (case_gram c) e with FEmit => String.eqb (e_kind e) kind | _ => false end)
          (c_events c).
Definition kf_plist_null (c : c13_case) : bool :=
  raised_with c "TypeError" "unsupported type" && emit_fails_on c "null".
(* a bytes string (pickle protocol >= 3) printed by YAMLStringFormatter.print_StringNode *)
Definition kf_yaml_bytes (c : c13_case) : bool :=
  raised_with c "TypeError" "bytes-like object is required" && emit_fails_on c "bytes".
(* two different bytes strings compared by the diff engine (outside rendering): StringNode.edits takes len() of an int *)
Definition kf_bytes_diff (c : c13_case) : bool :=
  match c_out c with
  | Raised k msg false => String.eqb k "TypeError" && contains "has no len()" msg && mem "bytes" (c_kinds c) && c_differ c
  | _ => false
  end.

(* a YAML mapping with a null key: json.build_tree(None, force_leaf_node=True) raises ValueError, which YAML's
   build_tree_handling_errors (YAMLError only) does not report: the loader dies before anything is rendered *)
Definition kf_yaml_null_key (c : c13_case) : bool :=
  match c_out c, c_roots c with
  | Raised k msg false, [] => String.eqb (c_it c) "yaml" && String.eqb k "ValueError" &&
                              contains "was expected to be an int or string" msg
  | _, _ => false
  end.

(* a pickled dict with two or more tuple keys: tuples are built as ListNode, DictNode.from_dict sorts the key/value
   pairs and ListNode has no `<`: TypeError in the loader, before anything is rendered *)
Definition kf_tuple_keys (c : c13_case) : bool :=
  match c_out c, c_roots c with
  | Raised k msg false, [] => String.eqb (c_it c) "pickle" && String.eqb k "TypeError" &&
                              contains "not supported between instances of 'ListNode'" msg
  | _, _ => false
  end.

End Model.
