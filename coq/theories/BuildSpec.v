(* C08 - mappings are unordered, lists are ordered: the data of a test case (inputs + what the implementation was
   observed to do) and the executable statement of the property, `holds_C08`, evaluated on the IMPLEMENTATION's
   observations.  Independent of the script model and of everything translated from the code. *)
From Coq Require Import ZArith List Bool Lia.
Require Import GT.PyBase GT.Data GT.ScriptSpec GT.BuildModel GT.EqualSpec.
Import ListNotations.
Open Scope Z_scope.

(* ---------------------------------------------------------------- documents *)
(* numeric leaves carry value  lnum / 2^lexp  with lexp >= 0 (float.as_integer_ratio) *)
Definition leaf_exp_ok (l : leaf) : bool := 0 <=? lexp l.
Fixpoint leaves_ok (d : doc) : bool :=
  match d with
  | DLeaf l => leaf_exp_ok l
  | DArr l => (fix go (l : list doc) : bool := match l with [] => true | x :: r => leaves_ok x && go r end) l
  | DObj kvs =>
      (fix go (l : list (leaf * doc)) : bool :=
         match l with [] => true | (k, v) :: r => leaf_exp_ok k && leaves_ok v && go r end) kvs
  end.
(* the domain of the theorems: string keys, pairwise different within one mapping; well-formed numbers *)
Definition doc_ok (d : doc) : bool := keys_ok d && leaves_ok d.

(* d' is d with the members of any of its mappings listed in a different order (decidable form of BuildProofs.dperm
   for documents whose keys are pairwise different) *)
Fixpoint doc_perm_eqb (d d' : doc) {struct d} : bool :=
  match d, d' with
  | DLeaf x, DLeaf y => leaf_exact_eqb x y
  | DArr l, DArr l' =>
      (fix go (l l' : list doc) {struct l} : bool :=
         match l, l' with [], [] => true | x :: r, y :: r' => doc_perm_eqb x y && go r r' | _, _ => false end) l l'
  | DObj kvs, DObj kvs' =>
      Nat.eqb (length kvs) (length kvs') &&
      (fix all (l : list (leaf * doc)) : bool :=
         match l with
         | [] => true
         | (k, v) :: r => existsb (fun kv' => leaf_exact_eqb k (fst kv') && doc_perm_eqb v (snd kv')) kvs' && all r
         end) kvs
  | _, _ => false
  end.

(* two positions of a list exchanged *)
Definition swap {A} (i j : nat) (l : list A) (d : A) : list A :=
  map (fun k => nth (if Nat.eqb k i then j else if Nat.eqb k j then i else k) l d) (seq 0 (length l)).

(* ---------------------------------------------------------------- which items are paired, removed, inserted
   An edited item is named by its path from the root: list elements by position, members of mappings by their key,
   the two sides of a key/value pair by 0 / 1.  Names do not depend on the order in which a mapping lists its keys. *)
Inductive pel := PIdx (n : nat) | PKey (k : lkind) (s : str).
Inductive ikind := IPair | IRem | IIns.
Record item := { it_kind : ikind; it_from : list pel; it_to : list pel; it_cost : Z }.

Definition pel_of (t : tree) (i : nat) : pel :=
  match t with
  | MSet _ cs | FDict cs => match nth_error cs i with Some (Kvp _ (Leaf k) _) => PKey (lk k) (ltext k) | _ => PIdx i end
  | _ => PIdx i
  end.

Fixpoint items (a b : tree) (pf pt : list pel) (e : edit) {struct e} : list item :=
  match e with
  | EComp _ _ subs =>
      (fix go (ss : list sub) : list item :=
         match ss with
         | [] => []
         | SPair i j e' :: ss' =>
             let pf' := pf ++ [pel_of a i] in
             let pt' := pt ++ [pel_of b j] in
             {| it_kind := IPair; it_from := pf'; it_to := pt'; it_cost := cost e' |} ::
             match nth_error (children a) i, nth_error (children b) j with
             | Some x, Some y => items x y pf' pt' e'
             | _, _ => []
             end ++ go ss'
         | SRem i c :: ss' => {| it_kind := IRem; it_from := pf ++ [pel_of a i]; it_to := pt; it_cost := c |} :: go ss'
         | SIns j c :: ss' => {| it_kind := IIns; it_from := pf; it_to := pt ++ [pel_of b j]; it_cost := c |} :: go ss'
         end) subs
  | _ => []
  end.

Definition pel_eqb (x y : pel) : bool :=
  match x, y with
  | PIdx n, PIdx m => Nat.eqb n m
  | PKey k s, PKey k' s' => lkind_eqb k k' && str_eqb s s'
  | _, _ => false
  end.
Fixpoint path_eqb (a b : list pel) : bool :=
  match a, b with [], [] => true | x :: a', y :: b' => pel_eqb x y && path_eqb a' b' | _, _ => false end.
Definition ikind_eqb (a b : ikind) : bool :=
  match a, b with IPair, IPair | IRem, IRem | IIns, IIns => true | _, _ => false end.
Definition item_eqb (x y : item) : bool :=
  ikind_eqb (it_kind x) (it_kind y) && path_eqb (it_from x) (it_from y) && path_eqb (it_to x) (it_to y) &&
  (it_cost x =? it_cost y).
Definition count_item (x : item) (l : list item) : nat := length (filter (item_eqb x) l).
(* equal as multisets *)
Definition same_items (l l' : list item) : bool :=
  Nat.eqb (length l) (length l') && forallb (fun x => Nat.eqb (count_item x l) (count_item x l')) l.

(* ---------------------------------------------------------------- cases *)
(* one arrangement of the keys of both documents, and what the implementation did with it *)
Record variant := {
  v_a : doc; v_b : doc;             (* the two documents with the keys of their mappings permuted at every depth *)
  v_ta : tree; v_tb : tree;         (* the trees json.build_tree built for them *)
  v_edit : edit;                    (* the complete nested script of  v_ta.edits(v_tb), own final costs *)
  v_eq_a : bool; v_cost_a : Z;      (* tree of the first document as given  ==  v_ta;  final cost of the edit between them *)
  v_eq_b : bool; v_cost_b : Z }.

Record perm_case := { pc_opts : bopts; pc_a : doc; pc_b : doc; pc_vars : list variant }.

Record swap_case := {
  sw_opts : bopts; sw_l : list doc; sw_i : nat; sw_j : nat;
  sw_ta : tree; sw_tb : tree;       (* the trees built for the list and for the list with positions i, j exchanged *)
  sw_cost : Z }.                    (* final cost of  sw_ta.edits(sw_tb) *)

Inductive c08_case := CPerm (c : perm_case) | CSwap (c : swap_case).

(* the inputs are what the generator claims: documents in the domain, every variant a key permutation of the pair *)
Definition in_domain (c : c08_case) : bool :=
  match c with
  | CPerm c =>
      doc_ok (pc_a c) && doc_ok (pc_b c) &&
      forallb (fun v => doc_perm_eqb (pc_a c) (v_a v) && doc_perm_eqb (pc_b c) (v_b v)) (pc_vars c)
  | CSwap c => doc_ok (DArr (sw_l c)) && Nat.ltb (sw_i c) (sw_j c) && Nat.ltb (sw_j c) (length (sw_l c))
  end.

Definition items_of (v : variant) : list item := items (v_ta v) (v_tb v) [] [] (v_edit v).

(* reordering keys changes neither the total cost nor which items are paired, removed or inserted (at any depth);
   a document and its key-permuted copy compare as equal (under the implementation's == and as data) at cost 0 *)
Definition holds_perm (c : perm_case) : bool :=
  match pc_vars c with
  | [] => true
  | v0 :: _ =>
      forallb (fun v =>
        (cost (v_edit v) =? cost (v_edit v0)) &&
        same_items (items_of v) (items_of v0) &&
        v_eq_a v && (v_cost_a v =? 0) && data_eqb (v_ta v0) (v_ta v) &&
        v_eq_b v && (v_cost_b v =? 0) && data_eqb (v_tb v0) (v_tb v)) (pc_vars c)
  end.

(* swapping two unequal elements of a list yields a non-zero cost *)
Definition swapped_unequal (c : swap_case) : bool :=
  negb (data_eqb (nth (sw_i c) (children (sw_ta c)) (sw_ta c)) (nth (sw_j c) (children (sw_ta c)) (sw_ta c))).
Definition holds_swap (c : swap_case) : bool := implb (swapped_unequal c) (0 <? sw_cost c).

Definition holds_C08 (c : c08_case) : bool :=
  match c with CPerm c => holds_perm c | CSwap c => holds_swap c end.

(* ---------------------------------------------------------------- classes of the open findings (C02's carve-outs)
   D4: some scalar of the list is Python-== to a scalar of different type ([1, 1.0]);
   D16: a list of leaves contains a zero-size leaf (["", 1]). *)
Definition kf_C08_swap_cross_type (c : c08_case) : bool :=
  match c with
  | CSwap c => negb (holds_swap c) && negb (typed (sw_ta c) (sw_tb c))
  | _ => false
  end.
Definition kf_C08_swap_zero_size (c : c08_case) : bool :=
  match c with
  | CSwap c => negb (holds_swap c) && typed (sw_ta c) (sw_tb c) && negb (nozero (sw_ta c) && nozero (sw_tb c))
  | _ => false
  end.
(* ---------------------------------------------------------------- mappings whose keys are not all strings (YAML, Python objects)
   LeafNode.__lt__ on two keys: Python's < on the wrapped objects; on TypeError (str against a number) the str() of
   both.  int, float and bool compare by value, strings by code point. *)
Definition leaf_ltb (x y : leaf) : bool :=
  if is_numeric (lk x) && is_numeric (lk y)
  then lnum x * 2 ^ lexp y <? lnum y * 2 ^ lexp x
  else str_ltb (ltext x) (ltext y).

(* sorted() in DictNode.from_dict is canonical only if < is a strict total order on the keys present: it is not when
   three keys form a cycle (2 < 10, 10 < "15", "15" < 2) or two different keys are incomparable (9 and "9") *)
Definition keys_not_totally_ordered (ks : list leaf) : bool :=
  existsb (fun x => existsb (fun y => existsb (fun z => leaf_ltb x y && leaf_ltb y z && negb (leaf_ltb x z)) ks) ks) ks ||
  existsb (fun x => existsb (fun y => negb (leaf_exact_eqb x y) && negb (leaf_ltb x y) && negb (leaf_ltb y x)) ks) ks.

Fixpoint has_unordered_keys (d : doc) : bool :=
  match d with
  | DLeaf _ => false
  | DArr l => (fix go (l : list doc) : bool := match l with [] => false | x :: r => has_unordered_keys x || go r end) l
  | DObj kvs =>
      keys_not_totally_ordered (map fst kvs) ||
      (fix go (l : list (leaf * doc)) : bool := match l with [] => false | (_, v) :: r => has_unordered_keys v || go r end) kvs
  end.

(* keys of one mapping are pairwise different as Python dict keys (==), at every depth *)
Fixpoint py_keys_distinct (ks : list leaf) : bool :=
  match ks with [] => true | k :: r => negb (existsb (py_eqb k) r) && py_keys_distinct r end.
Fixpoint any_keys_ok (d : doc) : bool :=
  match d with
  | DLeaf _ => true
  | DArr l => (fix go (l : list doc) : bool := match l with [] => true | x :: r => any_keys_ok x && go r end) l
  | DObj kvs =>
      py_keys_distinct (map fst kvs) &&
      (fix go (l : list (leaf * doc)) : bool := match l with [] => true | (_, v) :: r => any_keys_ok v && go r end) kvs
  end.

(* the inputs of the mixed-key stream are what its generator claims (the theorems do not cover them: they assume string keys) *)
Definition in_domain_any_keys (c : c08_case) : bool :=
  match c with
  | CPerm c =>
      any_keys_ok (pc_a c) && leaves_ok (pc_a c) && any_keys_ok (pc_b c) && leaves_ok (pc_b c) &&
      forallb (fun v => doc_perm_eqb (pc_a c) (v_a v) && doc_perm_eqb (pc_b c) (v_b v)) (pc_vars c)
  | CSwap _ => false
  end.

(* holds_perm without its pairing clause: equal costs, copy == and cost 0 *)
Definition holds_perm_costs (c : perm_case) : bool :=
  match pc_vars c with
  | [] => true
  | v0 :: _ =>
      forallb (fun v =>
        (cost (v_edit v) =? cost (v_edit v0)) &&
        v_eq_a v && (v_cost_a v =? 0) && data_eqb (v_ta v0) (v_ta v) &&
        v_eq_b v && (v_cost_b v =? 0) && data_eqb (v_tb v0) (v_tb v)) (pc_vars c)
  end.

(* the copy clauses of holds_perm alone: every permuted copy is == to the document as given, equal as data, at cost 0 *)
Definition holds_perm_copies (c : perm_case) : bool :=
  match pc_vars c with
  | [] => true
  | v0 :: _ =>
      forallb (fun v =>
        v_eq_a v && (v_cost_a v =? 0) && data_eqb (v_ta v0) (v_ta v) &&
        v_eq_b v && (v_cost_b v =? 0) && data_eqb (v_tb v0) (v_tb v)) (pc_vars c)
  end.

(* every recorded script is a well-formed script that honours the matching options at every level (ScriptSpec: C01
   valid, C03 additive, C10 restricted - under 'auto' every key present in both mappings is paired with itself, at
   every level the script descends to) *)
Definition scripts_wellformed (c : perm_case) : bool :=
  forallb (fun v => valid (v_ta v) (v_tb v) (v_edit v) && additive (v_edit v) && restricted (v_ta v) (v_tb v) (v_edit v))
          (pc_vars c).

(* D40, by mechanism: some mapping has keys that < does not order totally (mixed types), so sorted() in
   DictNode.from_dict is not canonical and the order of the DictNode's children follows the file; the matcher then
   resolves the choice among the pairs it is FREE to choose (keys not shared, or any pair under 'match') by that order,
   and since it minimises the matched edges only, the total cost as well as the pairing may differ.  In the class:
   a DictNode strategy (under 'none' there is no matcher: fully judged), unordered keys in one of the two documents,
   all copy clauses hold, and every arrangement's script is valid, additive and restricted - in particular under 'auto'
   every shared key is still paired with itself in every arrangement (a shared key paired elsewhere, removed or
   inserted is NOT in the class). *)
Definition kf_C08_mixed_key_order (c : c08_case) : bool :=
  match c with
  | CPerm c =>
      negb (holds_perm c) && o_ake (pc_opts c) &&
      (has_unordered_keys (pc_a c) || has_unordered_keys (pc_b c)) &&
      holds_perm_copies c && scripts_wellformed c
  | _ => false
  end.
(* the name under which D40 was first listed *)
Definition kf_C08_mixed_key_pairing := kf_C08_mixed_key_order.

(* the statement with the open classes carved out *)
Definition holds_C08_partial (c : c08_case) : bool :=
  holds_C08 c || kf_C08_swap_cross_type c || kf_C08_swap_zero_size c || kf_C08_mixed_key_order c.
