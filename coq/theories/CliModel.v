(* C14: the model of main()'s option resolution, assembled from the TRANSLATED code (GTgen.CliGen). *)
From Coq Require Import String List Bool.
Require Import GT.PyBase GTgen.CliTables GT.CliSpec GTgen.CliGen.
Import ListNotations.

Definition resolve (a : args) (guess_from guess_to : option string) : resolved :=
  {| o_from_mime := r_from_mime a; o_to_mime := r_to_mime a;
     o_from_type := get_filetype guess_from (r_from_mime a);
     o_to_type := get_filetype guess_to (r_to_mime a);
     o_ansi := r_printer_ansi a; o_quiet := r_printer_quiet a;
     o_join_lists := r_join_lists a; o_join_dict_items := r_join_dict_items a;
     o_allow_key_edits := r_opt_allow_key_edits a; o_auto_match_keys := r_opt_auto_match_keys a;
     o_allow_list_edits := r_opt_allow_list_edits a;
     o_allow_list_edits_wsl := r_opt_allow_list_edits_when_same_length a |}.

Definition corr_C14 (c : cli_case) : bool := case_agrees c (resolve (c_args c) (c_gf c) (c_gt c)).

(* exit status of main() given whether any listed edit had non-zero cost (lines 314-352) *)
Definition exit_status (had_edits : bool) : nat := if had_edits then 1 else 0.
