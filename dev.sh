#!/bin/bash
# developer helper: regenerate gen/*.v and _CoqProject, then make the given targets (default: all)
cd /verif && /venv/bin/python - "$@" <<'PY'
import sys; sys.path.insert(0,'/verif')
from harness import common
with common.Lock():
    print(common.regen()); common.coq_project()
    ok, log = common.coq_make(sys.argv[1:], timeout=3000)
print(log[-3000:]); print('OK' if ok else 'FAILED')
PY
