"""Fail-closed Python-ast -> Gallina translator for the small pure fragments the models import.

Every generator below parses /repo's *current* source, translates a named function or statement
group through the generic symbolic executor `Sym`, and returns Gallina text.  Any construct
outside the supported subset raises `Unsupported` naming the node: the generated file is then
replaced by one that does not compile, so every dependant proof fails (tie broken), never a guess.

Supported subset (all that is needed so far):
  expressions : names bound earlier, constants, attribute reads through a typed field table,
                not/and/or, comparisons (==, !=, <, <=, >, >=, is None, is not None, in/not in a
                constant table), + - * // %, max/min/len, conditional expressions, tuples,
                subscripts of declared leaf expressions, calls to declared pure helpers;
  statements  : assignments to locals, if/elif/else, return, raise, assert (ignored),
                the for/else "first non-None" idiom, for-range loops (translated to folds) —
                the last two as fixed shapes checked node by node;
  leaves      : a per-function table  ast.unparse(expr) -> Gallina term  substitutes opaque
                sub-expressions (oracle inputs) before anything else is tried.
"""
import ast
import json
import os
import subprocess


class Unsupported(Exception):
    pass


def src(repo, rel):
    with open(os.path.join(repo, rel)) as f:
        return f.read()


def find_func(tree, qual):
    parts = qual.split('.')
    body = tree.body
    node = None
    for p in parts:
        for n in body:
            if isinstance(n, (ast.FunctionDef, ast.ClassDef)) and n.name == p:
                node = n
                body = n.body
                break
        else:
            raise Unsupported(f'definition {qual} not found')
    return node


def reflect(repo, code):
    """Run a reflection snippet against /repo's graphtage in a fresh interpreter; returns its JSON."""
    env = dict(os.environ, PYTHONPATH=repo, PYTHONHASHSEED='0', PYTHONDONTWRITEBYTECODE='1')
    p = subprocess.run(['/venv/bin/python', '-c',
                        'import sys, json, os\n' + code + '\nsys.stdout.flush(); os._exit(0)'],
                       env=env, stdout=subprocess.PIPE, stderr=subprocess.PIPE, text=True, timeout=120)
    if p.returncode != 0:
        raise Unsupported('reflection failed: ' + p.stderr[-400:])
    return json.loads(p.stdout)


def coq_string(s):
    if any(ord(c) > 126 or ord(c) < 32 for c in s):
        raise Unsupported(f'non-printable string constant {s!r}')
    return '"' + s.replace('"', '""') + '"'


# ----------------------------------------------------------------------------- generic executor

class Val:
    """A Gallina term with a light type tag: bool, Z, str, obool, ostr, oZ, none, or an opaque tag."""
    def __init__(self, term, ty):
        self.term, self.ty = term, ty

    def __repr__(self):
        return f'Val({self.term!r}, {self.ty})'


def truthy(v, where):
    if v.ty == 'bool':
        return v.term
    if v.ty == 'obool':
        return f'(truthy_ob {v.term})'
    if v.ty == 'ostr':
        return f'(truthy_os {v.term})'
    if v.ty == 'none':
        return 'false'
    raise Unsupported(f'truthiness of type {v.ty} at {where}')


class Sym:
    def __init__(self, leaves=None, fields=None, self_name=None, helpers=None, consts=None, tables=None):
        self.leaves = leaves or {}      # unparse -> Val
        self.fields = fields or {}      # (base name, attr) -> Val-maker (term of base -> Val)
        self.helpers = helpers or {}    # function name -> (coq name, arg types, result type)
        self.consts = consts or {}      # Name -> Val
        self.tables = tables or {}      # unparse of a container -> (coq membership fn, coq lookup fn, elt type)

    # -- expressions
    def expr(self, n, env):
        key = ast.unparse(n)
        if key in self.leaves:
            return self.leaves[key]
        if isinstance(n, ast.Constant):
            v = n.value
            if v is True:
                return Val('true', 'bool')
            if v is False:
                return Val('false', 'bool')
            if v is None:
                return Val('None', 'none')
            if isinstance(v, int):
                return Val(f'({v})%Z', 'Z')
            if isinstance(v, str):
                return Val(coq_string(v), 'str')
            raise Unsupported(f'constant {v!r}')
        if isinstance(n, ast.Name):
            if n.id in env:
                return env[n.id]
            if n.id in self.consts:
                return self.consts[n.id]
            raise Unsupported(f'unbound name {n.id} (line {n.lineno})')
        if isinstance(n, ast.Attribute):
            if isinstance(n.value, ast.Name) and (n.value.id, n.attr) in self.fields:
                return self.fields[(n.value.id, n.attr)]
            base = self.expr(n.value, env)
            if (base.ty, n.attr) in self.fields:
                mk = self.fields[(base.ty, n.attr)]
                return Val(f'({mk.term} {base.term})', mk.ty)
            raise Unsupported(f'attribute {key} (line {n.lineno})')
        if isinstance(n, ast.UnaryOp):
            if isinstance(n.op, ast.Not):
                return Val(f'(negb {truthy(self.expr(n.operand, env), key)})', 'bool')
            if isinstance(n.op, ast.USub):
                v = self.expr(n.operand, env)
                if v.ty == 'Z':
                    return Val(f'(- {v.term})%Z', 'Z')
            raise Unsupported(f'unary {key}')
        if isinstance(n, ast.BoolOp):
            vals = [self.expr(v, env) for v in n.values]
            op = 'andb' if isinstance(n.op, ast.And) else 'orb'
            # Python's and/or return operands; only the boolean reading is supported, and only where
            # every operand is a bool or the result is used for its truth value with bool-like operands
            t = truthy(vals[0], key)
            for v in vals[1:]:
                t = f'({op} {t} {truthy(v, key)})'
            if not all(v.ty in ('bool', 'obool') for v in vals):
                raise Unsupported(f'and/or over non-boolean operands {key}')
            return Val(t, 'bool')
        if isinstance(n, ast.IfExp):
            c = truthy(self.expr(n.test, env), key)
            a, b = self.expr(n.body, env), self.expr(n.orelse, env)
            return self.merge(c, a, b, key)
        if isinstance(n, ast.Compare):
            return self.compare(n, env)
        if isinstance(n, ast.BinOp):
            a, b = self.expr(n.left, env), self.expr(n.right, env)
            ops = {ast.Add: '+', ast.Sub: '-', ast.Mult: '*', ast.FloorDiv: '/', ast.Mod: 'mod'}
            if type(n.op) in ops and a.ty == 'Z' and b.ty == 'Z':
                return Val(f'({a.term} {ops[type(n.op)]} {b.term})%Z', 'Z')
            if isinstance(n.op, ast.Pow) and isinstance(n.left, ast.Constant) and isinstance(n.right, ast.Constant):
                return Val(f'({n.left.value ** n.right.value})%Z', 'Z')
            raise Unsupported(f'binary {key} on {a.ty},{b.ty}')
        if isinstance(n, ast.Call):
            f = ast.unparse(n.func)
            if f in self.helpers and not n.keywords:
                cname, atys, rty = self.helpers[f]
                args = [self.expr(a, env) for a in n.args]
                if atys is not None and [a.ty for a in args] != list(atys):
                    raise Unsupported(f'call {key}: argument types {[a.ty for a in args]} != {atys}')
                return Val('(' + ' '.join([cname] + [a.term for a in args]) + ')', rty)
            if f in ('max', 'min') and not n.keywords and len(n.args) >= 2:
                args = [self.expr(a, env) for a in n.args]
                if all(a.ty == 'Z' for a in args):
                    t = args[0].term
                    for a in args[1:]:
                        t = f'(Z.{f} {t} {a.term})'
                    return Val(t, 'Z')
            raise Unsupported(f'call {key} (line {n.lineno})')
        if isinstance(n, ast.Tuple):
            vals = [self.expr(e, env) for e in n.elts]
            return Val('(' + ', '.join(v.term for v in vals) + ')', 'tuple:' + ','.join(v.ty for v in vals))
        raise Unsupported(f'expression {type(n).__name__}: {key} (line {getattr(n, "lineno", "?")})')

    def merge(self, c, a, b, where):
        if a.ty == b.ty:
            if a.term == b.term:
                return a
            return Val(f'(if {c} then {a.term} else {b.term})', a.ty)
        lifts = {('obool', 'bool'), ('ostr', 'str'), ('oZ', 'Z')}
        for x, y, flip in ((a, b, False), (b, a, True)):
            if x.ty == 'none' and y.ty in ('obool', 'ostr', 'oZ'):
                xa = Val('None', y.ty)
                return self.merge(c, *((y, xa) if flip else (xa, y)), where)
            if x.ty == 'none' and ('o' + y.ty if y.ty != 'str' else 'ostr') in ('obool', 'ostr', 'oZ'):
                oty = {'bool': 'obool', 'str': 'ostr', 'Z': 'oZ'}[y.ty]
                xa, ya = Val('None', oty), Val(f'(Some {y.term})', oty)
                return self.merge(c, *((ya, xa) if flip else (xa, ya)), where)
            if (x.ty, y.ty) in lifts:
                ya = Val(f'(Some {y.term})', x.ty)
                return self.merge(c, *((ya, x) if flip else (x, ya)), where)
        raise Unsupported(f'branches of different types {a.ty} / {b.ty} at {where}')

    def compare(self, n, env):
        key = ast.unparse(n)
        operands = [n.left] + n.comparators
        parts = []
        for op, l, r in zip(n.ops, operands, operands[1:]):
            if isinstance(op, (ast.Is, ast.IsNot)) and isinstance(r, ast.Constant) and r.value is None:
                v = self.expr(l, env)
                if v.ty in ('obool', 'ostr', 'oZ'):
                    t = f'(is_some {v.term})'
                elif v.ty == 'none':
                    t = 'false'
                elif v.ty in ('bool', 'str', 'Z'):
                    t = 'true'
                else:
                    raise Unsupported(f'None test on {v.ty}: {key}')
                parts.append(t if isinstance(op, ast.IsNot) else f'(negb {t})')
                continue
            if isinstance(op, (ast.In, ast.NotIn)):
                tk = ast.unparse(r)
                if tk not in self.tables:
                    raise Unsupported(f'membership in unknown table {tk}')
                mem, _, ety = self.tables[tk]
                v = self.expr(l, env)
                if v.ty != ety:
                    raise Unsupported(f'membership of {v.ty} in table of {ety}: {key}')
                t = f'({mem} {v.term})'
                parts.append(t if isinstance(op, ast.In) else f'(negb {t})')
                continue
            a, b = self.expr(l, env), self.expr(r, env)
            parts.append(self.cmp_vals(op, a, b, key))
        t = parts[0]
        for p in parts[1:]:
            t = f'(andb {t} {p})'
        return Val(t, 'bool')

    def cmp_vals(self, op, a, b, key):
        zops = {ast.Eq: 'Z.eqb', ast.Lt: 'Z.ltb', ast.LtE: 'Z.leb', ast.Gt: 'Z.gtb', ast.GtE: 'Z.geb'}
        if a.ty == 'Z' and b.ty == 'Z':
            if type(op) in zops:
                return f'({zops[type(op)]} {a.term} {b.term})'
            if isinstance(op, ast.NotEq):
                return f'(negb (Z.eqb {a.term} {b.term}))'
        if isinstance(op, (ast.Eq, ast.NotEq)):
            eqs = {('ostr', 'str'): 'ostr_eqb', ('str', 'str'): 'String.eqb', ('bool', 'bool'): 'Bool.eqb',
                   ('ostr', 'ostr'): 'oostr_eqb'}
            if (a.ty, b.ty) in eqs:
                t = f'({eqs[(a.ty, b.ty)]} {a.term} {b.term})'
                return t if isinstance(op, ast.Eq) else f'(negb {t})'
        if a.ty.startswith('tuple:') and a.ty == b.ty and all(t == 'Z' for t in a.ty[6:].split(',')) \
                and a.ty.count(',') == 1:
            lex = {ast.Lt: 'zz_ltb', ast.LtE: 'zz_leb', ast.Eq: 'zz_eqb'}
            if type(op) in lex:
                return f'({lex[type(op)]} {a.term} {b.term})'
        raise Unsupported(f'comparison {key} on {a.ty},{b.ty}')

    # -- statements: returns a Gallina term for the function result.  `final(env)` builds the result
    #    when control falls off the end of the block.
    def block(self, stmts, env, final):
        if not stmts:
            return final(env)
        s, rest = stmts[0], stmts[1:]
        if isinstance(s, ast.Expr) and isinstance(s.value, ast.Constant) and isinstance(s.value.value, str):
            return self.block(rest, env, final)          # docstring
        if isinstance(s, ast.Assert):
            return self.block(rest, env, final)
        if isinstance(s, ast.Assign) and len(s.targets) == 1 and isinstance(s.targets[0], ast.Name):
            env = dict(env)
            env[s.targets[0].id] = self.expr(s.value, env)
            return self.block(rest, env, final)
        if isinstance(s, ast.AnnAssign) and isinstance(s.target, ast.Name) and s.value is not None:
            env = dict(env)
            env[s.target.id] = self.expr(s.value, env)
            return self.block(rest, env, final)
        if isinstance(s, ast.Return):
            return self.ret(s.value, env)
        if isinstance(s, ast.Raise):
            return self.raise_(s, env)
        if isinstance(s, ast.If):
            c = truthy(self.expr(s.test, env), ast.unparse(s.test))
            if self.terminates(s.body) or self.terminates(s.orelse):
                a = self.block(s.body + rest, env, final)
                b = self.block(s.orelse + rest, env, final)
                return f'(if {c} then {a} else {b})'
            ea = self.run(s.body, env)
            eb = self.run(s.orelse, env)
            env2 = dict(env)
            for k in set(ea) | set(eb):
                if k not in ea or k not in eb:
                    raise Unsupported(f'{k} assigned in only one branch (line {s.lineno})')
                env2[k] = self.merge(c, ea[k], eb[k], f'line {s.lineno}')
            return self.block(rest, env2, final)
        if isinstance(s, ast.For):
            env = self.for_stmt(s, env)
            return self.block(rest, env, final)
        raise Unsupported(f'statement {type(s).__name__} (line {s.lineno}): {ast.unparse(s)[:80]}')

    def run(self, stmts, env):
        """Execute a non-terminating block, returning the new environment."""
        out = {}

        def final(e):
            out.update(e)
            return ''
        self.block(stmts, env, final)
        return out

    def terminates(self, stmts):
        for s in stmts:
            if isinstance(s, (ast.Return, ast.Raise)):
                return True
            if isinstance(s, ast.If) and (self.terminates(s.body) or self.terminates(s.orelse)):
                return True
        return False

    def ret(self, value, env):
        return self.expr(value, env).term

    def raise_(self, s, env):
        raise Unsupported(f'raise (line {s.lineno})')

    def for_stmt(self, s, env):
        raise Unsupported(f'for loop (line {s.lineno})')


# ----------------------------------------------------------------------------- C14: command line

CLI_FIELDS = {
    'from_mime': 'ostr', 'to_mime': 'ostr', 'no_color': 'obool', 'color': 'obool', 'html': 'bool',
    'condensed': 'bool', 'join_lists': 'bool', 'join_dict_items': 'bool', 'dict_strategy': 'ostr',
    'no_key_edits': 'bool', 'no_list_edits': 'bool', 'no_list_edits_when_same_length': 'bool',
    'no_status': 'bool', 'quiet': 'bool', 'only_edits': 'bool', 'edit_digest': 'bool', 'format': 'ostr',
}
CLI_TRACKED = ['ansi_color', 'from_mime', 'to_mime', 'allow_key_edits', 'auto_match_keys']


class CliSym(Sym):
    def for_stmt(self, s, env):
        # exactly:  for typename in graphtage.FILETYPES_BY_TYPENAME.keys():
        #               V = getattr(args, f'PFX_{typename}')
        #               if V is not None: break
        #           else: V = None
        try:
            assert ast.unparse(s.iter) == 'graphtage.FILETYPES_BY_TYPENAME.keys()'
            assert isinstance(s.target, ast.Name)
            tn = s.target.id
            a, i = s.body
            assert len(s.body) == 2 and isinstance(a, ast.Assign) and isinstance(a.targets[0], ast.Name)
            v = a.targets[0].id
            call = a.value
            assert isinstance(call, ast.Call) and ast.unparse(call.func) == 'getattr' and len(call.args) == 2
            assert ast.unparse(call.args[0]) == 'args'
            js = call.args[1]
            assert isinstance(js, ast.JoinedStr) and len(js.values) == 2
            pfx = js.values[0].value
            assert isinstance(js.values[1], ast.FormattedValue) and ast.unparse(js.values[1].value) == tn
            assert js.values[1].conversion == -1 and js.values[1].format_spec is None
            assert isinstance(i, ast.If) and ast.unparse(i.test) == f'{v} is not None' and not i.orelse
            assert len(i.body) == 1 and isinstance(i.body[0], ast.Break)
            assert len(s.orelse) == 1 and ast.unparse(s.orelse[0]) == f'{v} = None'
            assert pfx in ('from_', 'to_')
        except (AssertionError, ValueError, AttributeError):
            raise Unsupported(f'for loop of unexpected shape (line {s.lineno})')
        env = dict(env)
        env[v] = Val(f'(first_some (map (a_{pfx}ty a) typenames))', 'ostr')
        return env


def gen_cli(repo):
    tree = ast.parse(src(repo, 'graphtage/__main__.py'))
    main = find_func(tree, 'main')
    fields = {('args', k): Val(f'(a_{k} a)', t) for k, t in CLI_FIELDS.items()}
    sym = CliSym(fields=fields)
    env = {}
    calls = {}
    for s in main.body:
        assigned = {n.id for n in ast.walk(s) if isinstance(n, ast.Name) and isinstance(n.ctx, ast.Store)}
        if assigned & set(CLI_TRACKED):
            if isinstance(s, ast.If):
                ea = sym.run([s], env)
                env = ea
            elif isinstance(s, (ast.Assign, ast.For)):
                env = sym.run([s], env)
            else:
                raise Unsupported(f'tracked variable assigned by {type(s).__name__} (line {s.lineno})')
        for n in ast.walk(s) if isinstance(s, ast.Assign) else []:
            if isinstance(n, ast.Call) and ast.unparse(n.func) in ('printer_type', 'graphtage.BuildOptions'):
                calls[ast.unparse(n.func)] = (n, dict(env))
    for need in CLI_TRACKED:
        if need not in env:
            raise Unsupported(f'main() never assigns {need}')
    if set(calls) != {'printer_type', 'graphtage.BuildOptions'}:
        raise Unsupported('printer_type(...) / graphtage.BuildOptions(...) call not found in main()')
    pc, penv = calls['printer_type']
    pk = {k.arg: k.value for k in pc.keywords}
    if set(pk) != {'ansi_color', 'quiet', 'options'} or not isinstance(pk['options'], ast.Dict):
        raise Unsupported('printer_type keywords changed: ' + ast.unparse(pc))
    popts = {k.value: v for k, v in zip(pk['options'].keys, pk['options'].values)}
    if set(popts) != {'join_lists', 'join_dict_items'}:
        raise Unsupported('printer options changed')
    bc, benv = calls['graphtage.BuildOptions']
    bk = {k.arg: k.value for k in bc.keywords}
    want = {'allow_key_edits', 'auto_match_keys', 'allow_list_edits', 'allow_list_edits_when_same_length'}
    if set(bk) != want or bc.args:
        raise Unsupported('BuildOptions keywords changed: ' + ast.unparse(bc))

    def b(e, envx, ty):
        v = sym.expr(e, envx)
        if v.ty != ty:
            if ty == 'obool' and v.ty in ('bool', 'none'):
                return f'(Some {v.term})' if v.ty == 'bool' else 'None'
            raise Unsupported(f'{ast.unparse(e)} has type {v.ty}, expected {ty}')
        return v.term

    # get_filetype
    gt = ast.parse(src(repo, 'graphtage/graphtage.py'))
    gf = find_func(gt, 'get_filetype')
    if [a.arg for a in gf.args.args] != ['path', 'mime_type']:
        raise Unsupported('get_filetype signature changed')

    class GfSym(Sym):
        def raise_(self, s, env):
            if ast.unparse(s.exc.func) != 'ValueError':
                raise Unsupported('get_filetype raises ' + ast.unparse(s.exc.func))
            return 'None'

        def ret(self, value, env):
            if isinstance(value, ast.Subscript) and ast.unparse(value.value) == 'FILETYPES_BY_MIME':
                v = self.expr(value.slice, env)
                if v.ty in ('str', 'ostr'):
                    return f'(lookup_mime {v.term if v.ty == "ostr" else "(Some " + v.term + ")"})'
            raise Unsupported('get_filetype returns ' + ast.unparse(value))
    gsym = GfSym(leaves={'mimetypes.guess_type(path)[0]': Val('guess', 'ostr'), 'path is None': Val('false', 'bool')},
                 tables={'FILETYPES_BY_MIME': ('in_mime_table', 'lookup_mime', 'ostr')})
    gbody = gsym.block(gf.body, {'mime_type': Val('mime', 'ostr')}, lambda e: (_ for _ in ()).throw(
        Unsupported('get_filetype falls off its end')))

    out = ['(* GENERATED by /verif/translator/py2coq.py from graphtage/__main__.py and graphtage/graphtage.py; do not edit *)',
           'From Coq Require Import String List Bool ZArith.', 'Require Import GT.PyBase GTgen.CliTables GT.CliSpec.',
           'Import ListNotations.', 'Open Scope string_scope.', '']
    for v, ty in [('ansi_color', 'obool'), ('from_mime', 'ostr'), ('to_mime', 'ostr'),
                  ('allow_key_edits', 'bool'), ('auto_match_keys', 'bool')]:
        e = benv if v in ('allow_key_edits', 'auto_match_keys') else env
        val = e[v]
        term = val.term
        if val.ty != ty:
            if ty == 'obool' and val.ty == 'bool':
                term = f'(Some {term})'
            else:
                raise Unsupported(f'{v} has type {val.ty}, expected {ty}')
        cty = dict(bool='bool', obool='option bool', ostr='option string')[ty]
        out.append(f'Definition r_{v} (a : args) : {cty} :=\n  {term}.')
    out.append(f'Definition r_printer_ansi (a : args) : option bool :=\n  {b(pk["ansi_color"], dict(penv, ansi_color=Val("(r_ansi_color a)", "obool")), "obool")}.')
    out.append(f'Definition r_printer_quiet (a : args) : bool :=\n  {b(pk["quiet"], penv, "bool")}.')
    out.append(f'Definition r_join_lists (a : args) : bool :=\n  {b(popts["join_lists"], penv, "bool")}.')
    out.append(f'Definition r_join_dict_items (a : args) : bool :=\n  {b(popts["join_dict_items"], penv, "bool")}.')
    named = dict(benv)
    named['allow_key_edits'] = Val('(r_allow_key_edits a)', 'bool')
    named['auto_match_keys'] = Val('(r_auto_match_keys a)', 'bool')
    for k in sorted(want):
        out.append(f'Definition r_opt_{k} (a : args) : bool :=\n  {b(bk[k], named, "bool")}.')
    out.append('(* get_filetype(path, mime_type) with path given; guess = mimetypes.guess_type(path)[0]; result = type name *)')
    out.append(f'Definition get_filetype (guess mime : option string) : option string :=\n  {gbody}.')
    return '\n'.join(out) + '\n'


def gen_cli_tables(repo):
    info = reflect(repo, 'import graphtage\n'
                         'print(json.dumps({"typenames": list(graphtage.FILETYPES_BY_TYPENAME.keys()),'
                         '"bymime": [[m, f.name] for m, f in graphtage.FILETYPES_BY_MIME.items()],'
                         '"default": [[n, f.default_mimetype] for n, f in graphtage.FILETYPES_BY_TYPENAME.items()]}))')
    out = ['(* GENERATED by /verif/translator/py2coq.py by reflection on graphtage.FILETYPES_BY_*; do not edit *)',
           'From Coq Require Import String List Bool.', 'Require Import GT.PyBase.',
           'Import ListNotations.', 'Open Scope string_scope.', '',
           'Definition typenames : list string := [' + '; '.join(coq_string(t) for t in info['typenames']) + '].',
           'Definition mime_table : list (string * string) := [' +
           '; '.join(f'({coq_string(m)}, {coq_string(t)})' for m, t in info['bymime']) + '].',
           'Definition default_mime : list (string * string) := [' +
           '; '.join(f'({coq_string(t)}, {coq_string(m)})' for t, m in info['default']) + '].',
           'Definition in_mime_table (m : option string) : bool := match m with Some s => is_some (assoc s mime_table) | None => false end.',
           'Definition lookup_mime (m : option string) : option string := match m with Some s => assoc s mime_table | None => None end.']
    return '\n'.join(out) + '\n'


def _lazy(modname, fname):
    def run(repo):
        import importlib
        return getattr(importlib.import_module(modname), fname)(repo)
    return run


MODULES = {
    'CliTables': gen_cli_tables,
    'CliGen': gen_cli,
    'EdGen': _lazy('gen_ed', 'gen_ed'),
    'MatchGen': _lazy('gen_match', 'gen_match'),
    'ExprGen': _lazy('gen_expr', 'gen_expr'),
    'HandlersGen': _lazy('gen_handlers', 'gen_handlers'),
    'DispatchGen': _lazy('gen_dispatch', 'gen_dispatch'),
    'DetGen': _lazy('gen_det', 'gen_det'),
}

if __name__ == '__main__':
    import sys
    repo = sys.argv[1] if len(sys.argv) > 1 else '/repo'
    for name, fn in MODULES.items():
        if len(sys.argv) > 2 and name not in sys.argv[2:]:
            continue
        print(f'(* ===== {name} ===== *)')
        print(fn(repo))
