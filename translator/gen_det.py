"""C07 (DetGen): completeness of the declared adversaries.

`gen_det(repo)` parses every graphtage/*.py of the working tree with `ast` and lists every site where the iteration
order of a hash-ordered container, an object address, a hash value, or the process environment can flow into
behaviour:

  iter      `for .. in E`, comprehension generators, `yield from E`, `*E` and calls of order-sensitive consumers
            (sorted, min, max, list, tuple, iter, next, enumerate, zip, map, filter, reversed, any, all, sum, join,
            chain, deque, Counter, OrderedDict, dict.fromkeys) whose iterable E is *syntactically set-typed*:
            a set display / set comprehension, `set(..)` / `frozenset(..)`, a set operator (`& | - ^`) or set method
            (`union`, `intersection`, `difference`, `symmetric_difference`, `copy`) applied to a set-typed operand or
            to a dict view (`.keys()` / `.items()`), a conditional expression with a set-typed branch, a call of a
            function whose return annotation is Set/FrozenSet/MutableSet/AbstractSet, a name that is assigned from /
            annotated as such anywhere in the enclosing function(s) (flow-insensitive), a parameter annotated so, an
            attribute `self.x` assigned from / annotated as such anywhere in the same class, or a slice /
            `overlap` / `at` / `envelop` of an IntervalTree;
  pop       `E.pop()` without argument on a set-typed E;
  itree     iteration of (or an order-sensitive consumer applied to) a name bound to `IntervalTree(..)`;
  id        every call of `id(..)`;
  hash      every call of `hash(..)` outside a method called `__hash__`;
  addr-repr an instance of a package class that has no base class and defines neither __repr__ nor __str__ (its str()
            is `<... object at 0xADDRESS>`) handed to a node constructor (`super().__init__(C(..))`, `XNode(C(..))`);
  memo      a function decorated with functools.lru_cache / functools.cache (a process-global memo: what an earlier
            diff in the same process stored is returned to a later one; keys that compare equal - 1 == 1.0 == True -
            share an entry);
  gstate    a write, inside a function body, to process-global state: a subscript store / delete / mutating method
            call (append, add, update, setdefault, pop, popitem, clear, extend, insert, remove, discard, ...) on a
            container bound at module level or in a class body (of any class of the package), a `global` statement,
            an assignment to an attribute of a class (`cls.x = ..`, `ClassName.x = ..`, `self.x = ..` inside a
            metaclass) or of an imported module (`module.NAME = ..`);
  env       every read through the modules random, secrets, uuid, time, datetime, tempfile, glob, threading,
            multiprocessing, concurrent, asyncio, socket, getpass, platform, and os.environ / os.getenv / os.getpid /
            os.urandom / os.listdir / os.scandir / os.walk / os.getcwd / os.times / sys.flags.hash_randomization /
            object.__repr__ (address-bearing default repr).

Every site is the triple (file, qualified name of the enclosing function, kind) where kind is the category, a colon
and the source text of the expression (`ast.unparse`), with `#n` appended when the same text occurs n > 1 times in
the function.  AUDITED is the hand-audited classification of the sites of the current source: the name of the
adversary argument that stands for the site in the Coq models, or `benign: <reason>`.  A site that is not in the
table is an ERROR (py2coq.Unsupported): the generated file is then a stub, nothing that depends on it compiles, the
check reports a broken tie and searches harder.  Table rows whose site has disappeared are emitted as
`stale_audit_rows` (harmless).

Also emitted: the syntactic class of the container FixedKeyDictNode._child_edits collects its removals in, as seen
by THIS scanner (`child_edits_unshared_is_set`), so that DetProofs can check it against EdGen's flag.
"""
import ast
import os

from py2coq import Unsupported

SET_CTORS = {'set', 'frozenset'}
SET_METHODS = {'union', 'intersection', 'difference', 'symmetric_difference', 'copy'}
SET_ANN = ('Set[', 'FrozenSet[', 'MutableSet[', 'AbstractSet[', 'typing.Set[', 'typing.FrozenSet[', 'set[', 'frozenset[')
SET_ANN_EXACT = {'Set', 'FrozenSet', 'MutableSet', 'AbstractSet', 'set', 'frozenset', 'typing.Set', 'typing.FrozenSet'}
ITREE_SET_METHODS = {'overlap', 'at', 'envelop', 'items'}
CONSUMERS = {'sorted', 'min', 'max', 'list', 'tuple', 'iter', 'next', 'enumerate', 'zip', 'map', 'filter', 'reversed',
             'any', 'all', 'sum', 'deque', 'Counter', 'OrderedDict', 'HashableCounter', 'OrderedCounter', 'chain',
             'largest', 'smallest', 'make_distinct', 'sort', 'min_bounded'}
CONSUMER_METHODS = {'join', 'chain', 'from_iterable', 'fromkeys', 'extend', 'update_from'}
MUTATORS = {'append', 'add', 'update', 'setdefault', 'pop', 'popitem', 'clear', 'extend', 'insert', 'remove', 'discard',
            'appendleft', 'popleft', 'move_to_end', '__setitem__', '__delitem__', 'sort', 'reverse'}
CONTAINER_CTORS = {'dict', 'list', 'set', 'defaultdict', 'OrderedDict', 'Counter', 'deque', 'WeakValueDictionary',
                   'WeakKeyDictionary', 'WeakSet', 'HashableCounter', 'OrderedCounter', 'ChainMap'}
CONTAINER_ANN = ('Dict[', 'List[', 'Set[', 'DefaultDict[', 'MutableMapping[', 'MutableSet[', 'MutableSequence[', 'Deque[',
                 'typing.Dict[', 'typing.List[', 'typing.Set[', 'dict[', 'list[', 'set[', 'Counter[', 'OrderedDict[')
MEMO_DECORATORS = {'lru_cache', 'cache', 'memoize', 'memoized', 'memo'}
ENV_MODULES = {'random', 'secrets', 'uuid', 'time', 'datetime', 'tempfile', 'glob', 'threading', 'multiprocessing',
               'concurrent', 'asyncio', 'socket', 'getpass', 'platform'}
ENV_ATTRS = {'os.environ', 'os.getenv', 'os.getpid', 'os.urandom', 'os.listdir', 'os.scandir', 'os.walk', 'os.getcwd',
             'os.times', 'sys.flags', 'object.__repr__', 'os.getppid', 'os.cpu_count'}


def _u(node):
    return ast.unparse(node)


def _ann_is_set(ann):
    if ann is None:
        return False
    t = _u(ann).strip('\'"')
    for wrap in ('Optional[', 'typing.Optional['):
        if t.startswith(wrap) and t.endswith(']'):
            t = t[len(wrap):-1]
    return t in SET_ANN_EXACT or t.startswith(SET_ANN)


def _ann_is_itree(ann):
    return ann is not None and 'IntervalTree' in _u(ann)


class Scope:
    def __init__(self, parent=None):
        self.parent = parent
        self.sets = set()        # names bound to set-typed values
        self.itrees = set()      # names bound to IntervalTree values

    def is_set(self, name):
        return name in self.sets or (self.parent is not None and self.parent.is_set(name))

    def is_itree(self, name):
        return name in self.itrees or (self.parent is not None and self.parent.is_itree(name))


class FileScan:
    def __init__(self, relname, tree):
        self.rel = relname
        self.tree = tree
        self.sites = []                  # (qualname, kind)
        self.env_aliases = {}            # local alias -> module (import tempfile as tf; from time import time)
        self.set_funcs = set()           # functions / methods whose return annotation is a set type
        self.class_set_attrs = {}        # class qualname -> attribute names that are set-typed
        self.class_itree_attrs = {}
        self.module_containers = _bound_containers(tree.body)
        self.instance_attrs = {}
        self.module_aliases = set()      # names bound by `import x` / `import x as y` / `from . import x`
        self.func_depth = 0
        self.local_stack = []            # names assigned locally (not declared global) in the enclosing functions

    # ---------------------------------------------------------------- typing of expressions
    def is_itree(self, e, sc, cls):
        if isinstance(e, ast.Call) and _u(e.func).split('.')[-1] == 'IntervalTree':
            return True
        if isinstance(e, ast.Name):
            return sc.is_itree(e.id)
        if isinstance(e, ast.Attribute) and isinstance(e.value, ast.Name) and e.value.id == 'self' and cls:
            return e.attr in self.class_itree_attrs.get(cls, ())
        return False

    def is_set(self, e, sc, cls):
        if isinstance(e, (ast.Set, ast.SetComp)):
            return True
        if isinstance(e, ast.Call):
            f = e.func
            if isinstance(f, ast.Name) and (f.id in SET_CTORS or f.id in self.set_funcs):
                return True
            if isinstance(f, ast.Attribute):
                if f.attr in SET_METHODS and (self.is_set(f.value, sc, cls) or self._is_view(f.value)):
                    return True
                if f.attr in ITREE_SET_METHODS and self.is_itree(f.value, sc, cls):
                    return True
                if f.attr in self.set_funcs:
                    return True
            return False
        if isinstance(e, ast.BinOp) and isinstance(e.op, (ast.BitAnd, ast.BitOr, ast.Sub, ast.BitXor)):
            return any(self.is_set(x, sc, cls) or self._is_view(x) for x in (e.left, e.right))
        if isinstance(e, ast.IfExp):
            return self.is_set(e.body, sc, cls) or self.is_set(e.orelse, sc, cls)
        if isinstance(e, ast.Name):
            return sc.is_set(e.id)
        if isinstance(e, ast.Attribute) and isinstance(e.value, ast.Name) and e.value.id == 'self' and cls:
            return e.attr in self.class_set_attrs.get(cls, ())
        if isinstance(e, ast.Subscript) and self.is_itree(e.value, sc, cls):
            return True
        if isinstance(e, ast.NamedExpr):
            return self.is_set(e.value, sc, cls)
        return False

    @staticmethod
    def _is_view(e):
        return isinstance(e, ast.Call) and isinstance(e.func, ast.Attribute) and e.func.attr in ('keys', 'items') \
            and not e.args

    # ---------------------------------------------------------------- pre-passes
    def prepass_module(self):
        for n in ast.walk(self.tree):
            if isinstance(n, ast.Import):
                for a in n.names:
                    self.module_aliases.add(a.asname or a.name.split('.')[0])
                    root = a.name.split('.')[0]
                    if root in ENV_MODULES:
                        self.env_aliases[a.asname or root] = a.name
            elif isinstance(n, ast.ImportFrom) and n.module is None:
                for a in n.names:                                # from . import printer as printermodule
                    self.module_aliases.add(a.asname or a.name)
            elif isinstance(n, ast.ImportFrom) and n.module and n.level == 0:
                root = n.module.split('.')[0]
                if root in ENV_MODULES:
                    for a in n.names:
                        self.env_aliases[a.asname or a.name] = f'{n.module}.{a.name}'
                if n.module == 'os':
                    for a in n.names:
                        if f'os.{a.name}' in ENV_ATTRS:
                            self.env_aliases[a.asname or a.name] = f'os.{a.name}'
            elif isinstance(n, (ast.FunctionDef, ast.AsyncFunctionDef)) and _ann_is_set(n.returns):
                self.set_funcs.add(n.name)

    def prepass_class(self, cnode, qual):
        inst = set()
        for f in cnode.body:
            if isinstance(f, (ast.FunctionDef, ast.AsyncFunctionDef)):
                for g in ast.walk(f):
                    if isinstance(g, (ast.Assign, ast.AnnAssign, ast.AugAssign)):
                        for t in (g.targets if isinstance(g, ast.Assign) else [g.target]):
                            if isinstance(t, ast.Attribute) and isinstance(t.value, ast.Name) and t.value.id == 'self':
                                inst.add(t.attr)
        self.instance_attrs[qual] = inst
        sets, itrees = set(), set()
        # two rounds so that `self.a = set(); self.b = self.a | x` is seen
        for _ in range(2):
            self.class_set_attrs[qual] = sets
            self.class_itree_attrs[qual] = itrees
            for n in ast.walk(cnode):
                tgt = val = ann = None
                if isinstance(n, ast.Assign):
                    val = n.value
                    tgts = n.targets
                elif isinstance(n, ast.AnnAssign):
                    val, ann, tgts = n.value, n.annotation, [n.target]
                elif isinstance(n, ast.AugAssign):
                    val, tgts = n.value, [n.target]
                else:
                    continue
                for tgt in tgts:
                    name = None
                    if isinstance(tgt, ast.Attribute) and isinstance(tgt.value, ast.Name) and tgt.value.id == 'self':
                        name = tgt.attr
                    elif isinstance(tgt, ast.Name) and n in cnode.body:
                        name = tgt.id          # class-level attribute
                    if name is None:
                        continue
                    if _ann_is_set(ann) or (val is not None and self.is_set(val, Scope(), qual)):
                        sets.add(name)
                    if _ann_is_itree(ann) or (val is not None and self.is_itree(val, Scope(), qual)):
                        itrees.add(name)

    def scope_of(self, fnode, parent, cls):
        sc = Scope(parent)
        args = fnode.args
        for a in args.posonlyargs + args.args + args.kwonlyargs + [x for x in (args.vararg, args.kwarg) if x]:
            if _ann_is_set(a.annotation):
                sc.sets.add(a.arg)
            if _ann_is_itree(a.annotation):
                sc.itrees.add(a.arg)
        # a handler registered for the Python types set / frozenset (`@Builder.expander(set)`): its first
        # non-self parameter receives a set
        for d in fnode.decorator_list:
            if isinstance(d, ast.Call) and any(isinstance(x, ast.Name) and x.id in SET_CTORS for x in d.args):
                params = [a.arg for a in args.posonlyargs + args.args if a.arg not in ('self', 'cls')]
                if params:
                    sc.sets.add(params[0])
        for _ in range(2):
            for n in self._walk_own(fnode):
                val = ann = None
                if isinstance(n, ast.Assign):
                    val, tgts = n.value, n.targets
                elif isinstance(n, ast.AnnAssign):
                    val, ann, tgts = n.value, n.annotation, [n.target]
                elif isinstance(n, ast.AugAssign):
                    val, tgts = n.value, [n.target]
                elif isinstance(n, ast.NamedExpr):
                    val, tgts = n.value, [n.target]
                elif isinstance(n, (ast.With, ast.AsyncWith)):
                    continue
                else:
                    continue
                for tgt in tgts:
                    if isinstance(tgt, ast.Name):
                        if _ann_is_set(ann) or (val is not None and self.is_set(val, sc, cls)):
                            sc.sets.add(tgt.id)
                        if _ann_is_itree(ann) or (val is not None and self.is_itree(val, sc, cls)):
                            sc.itrees.add(tgt.id)
        return sc

    @staticmethod
    def _walk_own(fnode):
        """All nodes of a function body except the bodies of nested functions / classes."""
        stack = list(fnode.body)
        while stack:
            n = stack.pop()
            yield n
            for c in ast.iter_child_nodes(n):
                if isinstance(c, (ast.FunctionDef, ast.AsyncFunctionDef, ast.ClassDef, ast.Lambda)):
                    continue
                stack.append(c)

    # ---------------------------------------------------------------- the scan
    def run(self):
        self.prepass_module()
        self._classes(self.tree, '')
        self._visit_block(self.tree.body, '<module>', Scope(), None, in_hash=False)
        return self.sites

    def _classes(self, node, prefix):
        for n in ast.iter_child_nodes(node):
            if isinstance(n, ast.ClassDef):
                q = f'{prefix}{n.name}'
                self.prepass_class(n, q)
                self._classes(n, q + '.')
            elif isinstance(n, (ast.FunctionDef, ast.AsyncFunctionDef)):
                self._classes(n, f'{prefix}{n.name}.')
            elif isinstance(n, (ast.If, ast.Try, ast.With, ast.For, ast.While)):
                self._classes(n, prefix)

    def _visit_block(self, stmts, qual, sc, cls, in_hash):
        for s in stmts:
            self._visit(s, qual, sc, cls, in_hash)

    def _visit(self, n, qual, sc, cls, in_hash):
        if isinstance(n, ast.ClassDef):
            q = n.name if qual == '<module>' else f'{qual}.{n.name}'
            for d in n.decorator_list + n.bases:
                self._visit(d, qual, sc, cls, in_hash)
            csc = Scope(sc)
            self._visit_block(n.body, q, csc, q, False)
            return
        if isinstance(n, (ast.FunctionDef, ast.AsyncFunctionDef)):
            q = n.name if qual == '<module>' else f'{qual}.{n.name}'
            for d in n.decorator_list:
                self._visit(d, qual, sc, cls, in_hash)
            for d in n.args.defaults + [x for x in n.args.kw_defaults if x is not None]:
                self._visit(d, qual, sc, cls, in_hash)
            for d in n.decorator_list:
                dn = _u(d.func if isinstance(d, ast.Call) else d).split('.')[-1]
                if dn in MEMO_DECORATORS:
                    self.sites.append((q, f'memo:@{_u(d)}'))
            fsc = self.scope_of(n, sc, cls)
            glob = {x for g in self._walk_own(n) if isinstance(g, (ast.Global, ast.Nonlocal)) for x in g.names}
            loc = {a.arg for a in n.args.posonlyargs + n.args.args + n.args.kwonlyargs}
            for g in self._walk_own(n):
                if isinstance(g, ast.Name) and isinstance(g.ctx, ast.Store) and g.id not in glob:
                    loc.add(g.id)
            self.func_depth += 1
            self.local_stack.append(loc)
            try:
                self._visit_block(n.body, q, fsc, cls, n.name == '__hash__')
            finally:
                self.func_depth -= 1
                self.local_stack.pop()
            return
        if isinstance(n, ast.Lambda):
            self._visit(n.body, qual, sc, cls, in_hash)
            return
        self._site(n, qual, sc, cls, in_hash)
        for c in ast.iter_child_nodes(n):
            self._visit(c, qual, sc, cls, in_hash)

    def _ordered(self, e, sc, cls):
        """'iter' / 'itree' if iterating e exposes a hash/insertion-history order, else None."""
        if self.is_itree(e, sc, cls):
            return 'itree'
        if self.is_set(e, sc, cls):
            return 'iter'
        return None

    def _add(self, qual, cat, node):
        self.sites.append((qual, f'{cat}:{_u(node)}'))

    def _global_container(self, e, cls):
        """Is e (the base of a subscript / method call) a container bound at module or class level?"""
        if isinstance(e, ast.Subscript):
            return self._global_container(e.value, cls)          # ANSI_CONTEXT_STACK[stream].append(..)
        if isinstance(e, ast.Name):
            return e.id in self.module_containers and not any(e.id in loc for loc in self.local_stack)
        if isinstance(e, ast.Attribute) and isinstance(e.value, ast.Name) and e.value.id in self.module_aliases \
                and not any(e.value.id in loc for loc in self.local_stack):
            return True                                          # mimetypes.suffix_map[..] = ..
        if isinstance(e, ast.Attribute) and e.attr in CLASS_CONTAINERS:
            if isinstance(e.value, ast.Name) and e.value.id == 'self' and cls:
                # an instance attribute of the same name assigned in the class shadows the class-level container
                return e.attr not in self.instance_attrs.get(cls, ())
            return True
        return False

    def _gstate(self, n, qual, cls):
        if self.func_depth == 0:
            return
        if isinstance(n, (ast.Global,)):
            self.sites.append((qual, 'gstate:global ' + ', '.join(n.names)))
        tgts = []
        if isinstance(n, ast.Assign):
            tgts = n.targets
        elif isinstance(n, (ast.AugAssign, ast.AnnAssign)):
            tgts = [n.target]
        elif isinstance(n, ast.Delete):
            tgts = n.targets
        for t in tgts:
            for t2 in (t.elts if isinstance(t, (ast.Tuple, ast.List)) else [t]):
                if isinstance(t2, ast.Subscript) and self._global_container(t2.value, cls):
                    self.sites.append((qual, f'gstate:{_u(t2.value)}[..] ' + ('del' if isinstance(n, ast.Delete) else '=')))
                elif isinstance(t2, ast.Attribute) and isinstance(t2.value, ast.Name) and not isinstance(n, ast.Delete):
                    base = t2.value.id
                    in_meta = cls is not None and cls.split('.')[-1] in METACLASSES
                    if base == 'cls' or base in PKG_CLASSES or (base == 'self' and in_meta) \
                            or (base in self.module_aliases and not any(base in loc for loc in self.local_stack)):
                        self.sites.append((qual, f'gstate:{base}.{t2.attr} ='))
        if isinstance(n, ast.Call) and isinstance(n.func, ast.Attribute) and n.func.attr in MUTATORS \
                and self._global_container(n.func.value, cls):
            self.sites.append((qual, f'gstate:{_u(n.func.value)}.{n.func.attr}()'))

    def _site(self, n, qual, sc, cls, in_hash):
        self._gstate(n, qual, cls)
        if isinstance(n, (ast.For, ast.AsyncFor)):
            k = self._ordered(n.iter, sc, cls)
            if k:
                self._add(qual, k, n.iter)
        elif isinstance(n, (ast.ListComp, ast.SetComp, ast.DictComp, ast.GeneratorExp)):
            for g in n.generators:
                k = self._ordered(g.iter, sc, cls)
                if k:
                    self._add(qual, k, g.iter)
        elif isinstance(n, (ast.YieldFrom, ast.Starred)):
            k = self._ordered(n.value, sc, cls)
            if k:
                self._add(qual, k, n.value)
        elif isinstance(n, ast.Call):
            f = n.func
            fname = f.id if isinstance(f, ast.Name) else (f.attr if isinstance(f, ast.Attribute) else None)
            if isinstance(f, ast.Name) and f.id == 'id':
                self._add(qual, 'id', n)
            elif isinstance(f, ast.Name) and f.id == 'hash' and not in_hash:
                self._add(qual, 'hash', n)
            if fname in CONSUMERS or (isinstance(f, ast.Attribute) and fname in CONSUMER_METHODS):
                for a in list(n.args) + [kw.value for kw in n.keywords]:
                    a2 = a.value if isinstance(a, ast.Starred) else a
                    k = self._ordered(a2, sc, cls)
                    if k and not isinstance(a, ast.Starred):
                        self.sites.append((qual, f'{k}:{fname}({_u(a2)})'))
            if isinstance(f, ast.Attribute) and f.attr == 'pop' and not n.args and not n.keywords \
                    and self.is_set(f.value, sc, cls):
                self._add(qual, 'pop', n)
            # an instance of a class with the default (address-bearing) repr becomes the object of a node
            if fname == '__init__' or (fname or '').endswith('Node'):
                for a in list(n.args) + [kw.value for kw in n.keywords]:
                    if isinstance(a, ast.Call) and _u(a.func).split('.')[-1] in REPRLESS:
                        self._add(qual, 'addr-repr', a)
        elif isinstance(n, ast.Attribute):
            d = _u(n)
            root = d.split('.')[0]
            if d in ENV_ATTRS or (d.split('(')[0] in ENV_ATTRS):
                self._add(qual, 'env', n)
            elif isinstance(n.value, ast.Name) and root in self.env_aliases:
                self.sites.append((qual, f'env:{self.env_aliases[root]}.{n.attr}'))
        elif isinstance(n, ast.Name) and isinstance(n.ctx, ast.Load) and n.id in self.env_aliases \
                and '.' in self.env_aliases[n.id] and self.env_aliases[n.id].split('.')[0] != n.id:
            # a name imported from an environment module (from time import time)
            self.sites.append((qual, f'env:{self.env_aliases[n.id]}'))


def reprless_classes(pkg):
    """Classes of the package with no base class (other than object / Generic[..]) that define neither __repr__ nor
    __str__: str() / repr() of their instances is the default `<... object at 0xADDRESS>`."""
    res = set()
    for fn in sorted(os.listdir(pkg)):
        if not fn.endswith('.py') or fn.startswith('test'):
            continue
        tree = ast.parse(open(os.path.join(pkg, fn), encoding='utf-8').read())
        for c in ast.walk(tree):
            if isinstance(c, ast.ClassDef):
                bases = [_u(b) for b in c.bases]
                if all(b == 'object' or b.startswith('Generic[') for b in bases):
                    names = {f.name for f in c.body if isinstance(f, (ast.FunctionDef, ast.AsyncFunctionDef))}
                    names |= {t.id for a in c.body if isinstance(a, ast.Assign) for t in a.targets if isinstance(t, ast.Name)}
                    if '__repr__' not in names and '__str__' not in names:
                        res.add(c.name)
    return res


REPRLESS = set()
CLASS_CONTAINERS = set()      # names bound to containers in the body of some class of the package
PKG_CLASSES = set()           # names of all classes of the package
METACLASSES = set()           # classes deriving from type / ABCMeta / *Meta


def _is_container_value(val, ann):
    if ann is not None and _u(ann).strip('\'"').startswith(CONTAINER_ANN):
        return True
    if isinstance(val, (ast.Dict, ast.List, ast.Set, ast.DictComp, ast.ListComp, ast.SetComp)):
        return True
    if isinstance(val, ast.Call) and _u(val.func).split('.')[-1] in CONTAINER_CTORS:
        return True
    return False


def _bound_containers(body):
    out = set()
    for n in body:
        if isinstance(n, ast.Assign) and _is_container_value(n.value, None):
            out |= {t.id for t in n.targets if isinstance(t, ast.Name)}
        elif isinstance(n, ast.AnnAssign) and isinstance(n.target, ast.Name) and _is_container_value(n.value, n.annotation):
            out.add(n.target.id)
        elif isinstance(n, (ast.If, ast.Try)):
            out |= _bound_containers(n.body) | _bound_containers(getattr(n, 'orelse', []))
    return out


def package_state(pkg):
    CLASS_CONTAINERS.clear(); PKG_CLASSES.clear(); METACLASSES.clear()
    for fn in sorted(os.listdir(pkg)):
        if not fn.endswith('.py') or fn.startswith('test'):
            continue
        tree = ast.parse(open(os.path.join(pkg, fn), encoding='utf-8').read())
        for c in ast.walk(tree):
            if isinstance(c, ast.ClassDef):
                PKG_CLASSES.add(c.name)
                CLASS_CONTAINERS.update(_bound_containers(c.body))
                if any(_u(b).split('.')[-1] in ('type', 'ABCMeta') or _u(b).endswith('Meta') for b in c.bases):
                    METACLASSES.add(c.name)


def scan(repo):
    pkg = os.path.join(repo, 'graphtage')
    out = []
    REPRLESS.clear()
    REPRLESS.update(reprless_classes(pkg))
    package_state(pkg)
    for fn in sorted(os.listdir(pkg)):
        if not fn.endswith('.py') or fn.startswith('test'):
            continue
        path = os.path.join(pkg, fn)
        with open(path, encoding='utf-8') as f:
            text = f.read()
        try:
            tree = ast.parse(text, filename=path)
        except SyntaxError as e:
            raise Unsupported(f'{fn}: cannot parse: {e}')
        raw = FileScan(fn, tree).run()
        counts = {}
        for q, k in raw:
            counts[(q, k)] = counts.get((q, k), 0) + 1
        for (q, k), c in sorted(counts.items()):
            out.append((fn, q, k if c == 1 else f'{k}#{c}'))
    return out


# ------------------------------------------------------------------------------------------------------------
# Hand-audited classification of the sites of the current source (read at the line given; see the report).
# 'adversary:<name>' names the argument of the Coq models that stands for the site:
#    pi    = ScriptModel.o_order (set order in FixedKeyDictNode._child_edits; only consulted when EdGen's flag is true)
#    tau   = ScriptModel.o_match (which assignment the matcher returns; make_distinct's tightening order feeds scipy)
#    iota  = the id() tie-break of BoundedComparator (SearchModel / FibHeapModel take the comparison as an argument)
# 'benign: ...' = the order / address / hash cannot reach an observable result, for the stated reason.
AUDITED = {}


def _benign(file, qual, kind, reason):
    AUDITED[(file, qual, kind)] = 'benign: ' + reason


def _adv(file, qual, kind, name):
    AUDITED[(file, qual, kind)] = 'adversary:' + name


# bounds.py:320-330  BoundedComparator.__lt__: `... or (bounds equal and id(self) < id(other))`.  Used by bounds.sort and
# bounds.min_bounded only; their only caller is matching.SortedEdges (dead code, see DEAD below).  Off the document
# diff path; SearchModel / FibHeapModel take the comparison as an argument.
_adv('bounds.py', 'BoundedComparator.__lt__', 'id:id(self)', 'iota')
_adv('bounds.py', 'BoundedComparator.__lt__', 'id:id(other)', 'iota')
# bounds.py:387-441  make_distinct: `for m in tree` (IntervalTree.__iter__ = iteration of its `all_intervals` set) and
# `for m in matching` (tree[begin:end] = a fresh set) pick the FIRST biggest interval, i.e. which edges are tightened
# first and how far, which decides the upper bounds scipy sees.  intervaltree 3.1.0: Interval.__hash__ is
# hash((begin, end)) (ints: neither seed- nor address-dependent) and equality falls back to identity of the edit, so
# the order is a function of the insertion history; the models do not rely on that: the assignment is the oracle.
_adv('bounds.py', 'make_distinct', 'itree:tree', 'tau')
_adv('bounds.py', 'make_distinct', 'iter:matching', 'tau')
# builder.py:231-236  BasicBuilder.expand_list is registered for set and frozenset: `yield from obj` enumerates a Python
# set in hash order, which becomes the element order of the MultiSetNode and the order of the printed elements.  Not
# reachable from any file type (json.build_tree rejects sets; pickle goes through ast.Set.elts, a list); reachable
# through graphtage.pydiff / BasicBuilder.build_tree(python object).  Declared adversary sigma (BuilderModel takes the
# expansion order of a set as given); see the report: output of pydiff on sets of strings follows PYTHONHASHSEED.
_adv('builder.py', 'BasicBuilder.expand_list', 'iter:obj', 'sigma')
# dataclasses.py:78  cached value returned by __hash__ only (DataClassNode is used as dict / Counter key; dicts and
# Counters iterate in insertion order).
_benign('dataclasses.py', 'DataClassNode.__init__', 'hash:hash(tuple(self))',
        'cached for __hash__; only keys insertion-ordered dicts/Counters and the order-independent xor hash of HashableCounter')
# fibonacci.py:30, 132  identity tests written with id(): `key is DefaultKey`, `self is other`; no address is ordered.
_benign('fibonacci.py', 'HeapNode.__init__', 'id:id(key)', 'identity test (key is DefaultKey); the address is not ordered or stored')
_benign('fibonacci.py', 'HeapNode.__init__', 'id:id(DefaultKey)', 'identity test (key is DefaultKey); the address is not ordered or stored')
_benign('fibonacci.py', 'HeapNode.__eq__', 'id:id(self)', 'identity test (self is other); the address is not ordered or stored')
_benign('fibonacci.py', 'HeapNode.__eq__', 'id:id(other)', 'identity test (self is other); the address is not ordered or stored')
# graphtage.py:35, 194  cached hashes of LeafNode / KeyValuePairNode (string hashes follow PYTHONHASHSEED): returned by
# __hash__ only.  Nodes key dicts and (Hashable)Counters, all insertion-ordered; HashableCounter.__hash__ and
# FixedKeyDictNode.__hash__ combine them order-independently (xor / frozenset); no set of nodes is ever iterated
# (this scan would list it).
_benign('graphtage.py', 'LeafNode.__init__', 'hash:hash(obj)',
        'cached for __hash__; nodes only key insertion-ordered dicts/Counters, no set of nodes is iterated')
_benign('graphtage.py', 'KeyValuePairNode.__init__', 'hash:hash((key, value))',
        'cached for __hash__; nodes only key insertion-ordered dicts/Counters, no set of nodes is iterated')
# matching.py:211-460  Matching / PathSet / WeightedBipartiteMatcherPARTIAL_IMPLEMENTATION: an abandoned matcher; not
# referenced outside matching.py (checked on every run: DEAD), MultiSetEdit uses WeightedBipartiteMatcher (scipy).
_D = 'dead code: Matching/PathSet/WeightedBipartiteMatcherPARTIAL_IMPLEMENTATION are referenced nowhere outside their definitions (checked by the translator)'
_benign('matching.py', 'Matching.__iter__', 'iter:iter(self._edges)', _D)
_benign('matching.py', 'Matching.__repr__', 'iter:self._edges', _D)
_benign('matching.py', 'Matching.bounds', 'iter:self._edges', _D)
_benign('matching.py', 'WeightedBipartiteMatcherPARTIAL_IMPLEMENTATION.tighten_bounds', 'iter:r', _D)
# object_set.py  IdentityHash hashes and compares by id(): used by builder.CyclicReference for membership of the DFS
# stack (cycle detection) only.  ObjectSet (the only place a set of them is iterated) is imported nowhere (DEAD).
_I = 'identity hash / identity test used for membership only (builder cycle detection); never ordered or iterated'
_benign('object_set.py', 'IdentityHash.__hash__', 'id:id(self.obj)', _I)
_benign('object_set.py', 'IdentityHash.__eq__', 'id:id(self.obj)', _I)
_benign('object_set.py', 'IdentityHash.__eq__', 'id:id(other.obj)', _I)
# builder.py:21  CyclicReference(LeafNode) wraps IdentityHash(obj), which has neither __repr__ nor __str__: the leaf's text
# (LeafNode.edits: levenshtein_distance(str(a.object), str(b.object)); calculate_total_size: len(str(object))) is
# `<graphtage.object_set.IdentityHash object at 0x7f..>`, so the cost of matching two placeholders is the number of
# differing address digits.  Only with BuildOptions.ignore_cycles=True on a cyclic Python object (library path; no
# file type builds through Builder with cycles).  BuilderModel abstracts the address as the identity index of TCyc.
_adv('builder.py', 'CyclicReference.__init__', 'addr-repr:IdentityHash(obj)', 'alpha')
_O = 'dead code: ObjectSet is referenced nowhere outside object_set.py (checked by the translator)'
_benign('object_set.py', 'ObjectSet.__iter__', 'iter:self.objs', _O)
_benign('object_set.py', 'ObjectSet.__str__', 'iter:map(self.objs)', _O)
# printer.py:78-160  the set of active combining marks (strings: seed-dependent order).  strike() / under_plus() are
# the only producers, each adds ONE mark, and every `with printer.strike()/under_plus()` block prints with
# with_edits=False or writes delimiters/characters, so the contexts never nest and the set has at most one element
# whenever it is joined or iterated.  Latent: two simultaneously active marks would be emitted in hash order.
_M = 'at most one combining mark is active at a time (strike/under_plus contexts wrap with_edits=False prints only and never nest); observed by the multi-seed byte comparison'
_benign('printer.py', 'CombiningMarkWriter.marks_str', 'iter:join(self._marks)', _M)
_benign('printer.py', 'CombiningMarkContext.__enter__', 'iter:self.marks', _M + '; adds to a set: order-independent')
_benign('printer.py', 'CombiningMarkContext.__exit__', 'iter:self.marks - self._state_before', _M + '; removes from a set: order-independent')
# utils.py:381  Tempfile: `graphtage - b.json` copies stdin into a NamedTemporaryFile; its random name reaches only the
# stderr text `Error parsing tmpXXXX: ...` of a malformed stdin document (and tqdm's status line), never stdout or
# the exit status.
_benign('utils.py', 'Tempfile.__enter__', 'env:tempfile.NamedTemporaryFile',
        'random file name for a document read from stdin; reaches only stderr (error text / status line), not stdout or the exit status')

# ---- process-global state written inside function bodies (kind gstate) and memo decorators (kind memo).
# The current source has NO functools.lru_cache / cache.  All gstate writes are either registrations performed while the
# package is imported (class creation / module-level instances / decorators), i.e. before any document is read, or
# balanced per-stream bookkeeping, or a memo whose value is a function of its key alone.
_R = 'registration at import time (class creation, module-level instance or decorator); nothing is written while documents are read, diffed or printed'
_benign('builder.py', 'Builder.__init_subclass__', 'gstate:cls.BUILDERS.update()', _R)
_benign('builder.py', 'Builder.__init_subclass__', 'gstate:cls.EXPANDERS.update()', _R)
_benign('dataclasses.py', 'DataClassNode.__init_subclass__', 'gstate:cls._DATA_CLASS_ANCESTORS =', _R)
_benign('dataclasses.py', 'DataClassNode.__init_subclass__', 'gstate:cls._SLOTS =#2', _R)
_benign('dataclasses.py', 'DataClassNode.__init_subclass__', 'gstate:cls._SLOT_ANNOTATIONS =#2', _R)
_benign('dataclasses.py', 'DataClassNode.__init_subclass__', 'gstate:cls._SLOT_ANNOTATIONS[..] =', _R)
_benign('expressions.py', 'Operator.__init__', 'gstate:OPERATORS_BY_NAME[..] =', _R + ' (Enum members)')
_benign('formatter.py', 'FormatterChecker.__init__', 'gstate:FORMATTERS.append()', _R)
_benign('graphtage.py', 'Filetype.__init__', 'gstate:FILETYPES_BY_MIME[..] =#2', _R + ' (the eight Filetype singletons are created when their modules are imported)')
_benign('graphtage.py', 'Filetype.__init__', 'gstate:FILETYPES_BY_TYPENAME[..] =', _R + ' (the eight Filetype singletons are created when their modules are imported)')
_benign('printer.py', 'only_ansi', 'gstate:ONLY_ANSI_FUNCS.add()', _R + '; the set is only tested for membership')
_benign('tree.py', 'ContainerNode.__init_subclass__', 'gstate:cls.__init__ =', _R)
_benign('tree.py', 'TreeNodeMeta.__init__', 'gstate:cls._edited_type =', _R)
# formatter.py:339-343  Formatter.__new__ first gives the NEW instance its own list (setattr(ret, 'sub_formatters', [])) and
# appends to that; the class-level default `sub_formatters = []` is never mutated.
_benign('formatter.py', 'Formatter.__new__', 'gstate:ret.sub_formatters.append()',
        'appends to the list the new instance was given one line earlier (setattr(ret, "sub_formatters", [])), not to the class-level default')
# tree.py:315-335  TreeNodeMeta.edited_type memoises, per node class, the dynamically created Edited<Class> type.  Written
# during the first diff that meets the class; the value depends on the class alone (name, bases, two closures), keys are
# class objects (no two distinct keys compare equal), so an earlier diff cannot change what a later one gets.
_benign('tree.py', 'TreeNodeMeta.edited_type', 'gstate:self._edited_type =',
        'per-class memo of the generated Edited<Class> type: a function of the class alone, keyed by identity; observed by the warm-process stream')
# printer.py:323, 333  ANSI_CONTEXT_STACK[stream]: pushed in ANSIContext.__enter__, popped in __exit__ (with-blocks), keyed by
# the output stream.  Balanced on every path without an exception; an exception inside a with-block is still popped by
# __exit__.  main() creates a new Printer (new key) per call.  Observed by the warm-process stream.
_S = 'per-stream stack, pushed and popped by the same with-block (balanced); keyed by the writer of the current call; observed by the warm-process stream'
_benign('printer.py', 'ANSIContext.__enter__', 'gstate:ANSI_CONTEXT_STACK[self.stream].append()', _S)
_benign('printer.py', 'ANSIContext.__exit__', 'gstate:ANSI_CONTEXT_STACK[self.stream].pop()', _S)
# __main__.py:209  main() replaces printer.DEFAULT_PRINTER; tree.py / levenshtein.py bound the old object at import, the
# new one is used for status output (stderr) only.  __main__.py:218-225 registers the .yml/.yaml suffixes (idempotent).
_benign('__main__.py', 'main', 'gstate:printermodule.DEFAULT_PRINTER =',
        'the default printer only carries status output (tqdm on stderr); stdout goes through the printer main() passes explicitly; observed by the warm-process stream')
_benign('__main__.py', 'main', 'gstate:mimetypes.suffix_map[..] =#4',
        'idempotent registration of the .yml/.yaml suffixes in the stdlib mimetypes tables')

# classes that the audit above declares dead: any reference outside the defining file is an error
DEAD = {'matching.py': ('Matching', 'PathSet', 'WeightedBipartiteMatcherPARTIAL_IMPLEMENTATION', 'SortedEdges',
                        'MatchingFromNode', 'MatchingToNode', 'MatchingNode', 'QueueElement'),
        'object_set.py': ('ObjectSet',)}
# functions whose only callers must stay inside the dead code (BoundedComparator's id() tie-break = iota)
OFF_PATH = {'bounds.py': ('sort', 'min_bounded', 'BoundedComparator')}


def check_dead(repo):
    pkg = os.path.join(repo, 'graphtage')
    for fn in sorted(os.listdir(pkg)):
        if not fn.endswith('.py'):
            continue
        tree = ast.parse(open(os.path.join(pkg, fn), encoding='utf-8').read())
        for n in ast.walk(tree):
            name = n.id if isinstance(n, ast.Name) else n.attr if isinstance(n, ast.Attribute) else None
            if isinstance(n, ast.ImportFrom):
                for a in n.names:
                    for home, names in list(DEAD.items()) + list(OFF_PATH.items()):
                        if a.name in names and fn != home and (n.module or '').split('.')[-1] == home[:-3]:
                            if home in OFF_PATH and fn == 'matching.py':
                                continue        # bounds.sort is imported by the dead matcher only
                            raise Unsupported(f'{fn} imports {a.name} from {home}: audited as dead / off the diff path')
            if name is None:
                continue
            for home, names in DEAD.items():
                if name in names and fn != home:
                    raise Unsupported(f'{fn} references {name}: audited as dead code')
    # inside matching.py the live matcher must not use the dead classes or bounds_sort
    tree = ast.parse(open(os.path.join(pkg, 'matching.py'), encoding='utf-8').read())
    for c in tree.body:
        if isinstance(c, (ast.ClassDef, ast.FunctionDef)) and c.name in ('WeightedBipartiteMatcher', 'min_weight_bipartite_matching',
                                                                         'get_dtype'):
            for n in ast.walk(c):
                name = n.id if isinstance(n, ast.Name) else n.attr if isinstance(n, ast.Attribute) else None
                if name in DEAD['matching.py'] or name in ('bounds_sort', 'min_bounded', 'BoundedComparator'):
                    raise Unsupported(f'matching.{c.name} references {name}: audited as dead code / off the diff path')


ADVERSARIES = ('pi', 'tau', 'iota', 'sigma', 'alpha')


def _cstr(s):
    if any(ord(c) > 126 or ord(c) < 32 for c in s):
        raise Unsupported(f'non-printable text in a site: {s!r}')
    return '"' + s.replace('"', '""') + '"'


def child_edits_container(repo):
    path = os.path.join(repo, 'graphtage', 'graphtage.py')
    tree = ast.parse(open(path, encoding='utf-8').read())
    for c in ast.walk(tree):
        if isinstance(c, ast.ClassDef) and c.name == 'FixedKeyDictNode':
            for f in c.body:
                if isinstance(f, ast.FunctionDef) and f.name == '_child_edits':
                    fs = FileScan('graphtage.py', tree)
                    fs.prepass_module()
                    fs._classes(tree, '')
                    sc = fs.scope_of(f, Scope(), 'FixedKeyDictNode')
                    names = {n.id for n in ast.walk(f) if isinstance(n, ast.Name)}
                    if 'unshared_kvps' not in names:
                        raise Unsupported('FixedKeyDictNode._child_edits: unshared_kvps not found')
                    return sc.is_set('unshared_kvps')
    raise Unsupported('FixedKeyDictNode._child_edits not found')


def gen_det(repo):
    sites = scan(repo)
    check_dead(repo)
    unknown = [s for s in sites if s not in AUDITED]
    if unknown:
        raise Unsupported('unaudited nondeterminism site(s): ' + '; '.join(f'{f}:{q}: {k}' for f, q, k in unknown[:8])
                          + (f' (+{len(unknown) - 8} more)' if len(unknown) > 8 else ''))
    stale = [k for k in AUDITED if k not in set(sites)]
    out = ['(* GENERATED by /verif/translator/gen_det.py from graphtage/*.py; do not edit *)',
           'From Coq Require Import String List Bool.', 'Require Import GT.DetSpec.', 'Import ListNotations.',
           'Open Scope string_scope.', '',
           '(* every syntactic site where set / interval-tree iteration order, id(), hash() or the process environment',
           '   can flow into behaviour: (file, enclosing function, kind:expression) *)',
           'Definition nondeterminism_sites : list site :=', '  [']
    out.append(';\n'.join(f'   ({_cstr(f)}, {_cstr(q)}, {_cstr(k)})' for f, q, k in sites))
    out += ['  ].', '', '(* the hand-audited table of gen_det.py (AUDITED), verbatim *)',
            'Definition audit_table : list (site * site_class) :=', '  [']
    rows = []
    for (f, q, k), v in sorted(AUDITED.items()):
        if v.startswith('adversary:'):
            name = v.split(':', 1)[1]
            if name not in ADVERSARIES:
                raise Unsupported(f'audit table names an unknown adversary {name!r}')
            cls = f'Adversary {_cstr(name)}'
        elif v.startswith('benign: '):
            cls = f'Benign {_cstr(v[8:])}'
        else:
            raise Unsupported(f'audit table: bad class {v!r}')
        rows.append(f'   (({_cstr(f)}, {_cstr(q)}, {_cstr(k)}), {cls})')
    out.append(';\n'.join(rows))
    out += ['  ].', '', '(* table rows whose site no longer exists in the source (harmless) *)',
            f'Definition stale_audit_rows : nat := {len(stale)}.', '',
            '(* is the container FixedKeyDictNode._child_edits collects its removals in set-typed for THIS scanner? *)',
            f'Definition child_edits_unshared_is_set : bool := {"true" if child_edits_container(repo) else "false"}.', '']
    return '\n'.join(out)


if __name__ == '__main__':
    import sys
    repo = sys.argv[1] if len(sys.argv) > 1 else '/repo'
    for s in scan(repo):
        print(('  ' if s in AUDITED else '? ') + repr(s))
