"""C15: fail-closed translation of `INTEGER_DTYPE_INTERVALS` and `get_dtype` (graphtage/matching.py).

`gen_match(repo)` parses the CURRENT source with `ast` and returns the text of coq/gen/MatchGen.v:

  * `INTEGER_DTYPE_INTERVALS : list (Z * Z * np_dtype)` - one entry per row of the Python tuple, in
    order, with lo / hi translated through the generic expression translator (`py2coq.Sym`) and the
    dtype `np.dtype(np.<name>)` turned into (name, signed?, bits) by asking numpy what <name> is;
  * `get_dtype` - translated from the actual `for ... in INTEGER_DTYPE_INTERVALS: if COND: return dtype`
    loop (COND goes through `Sym`, so an edit of a comparison operator shows up in the Gallina text)
    and the actual fallback `return np.dtype(int)`.

Anything that is not exactly this shape raises `py2coq.Unsupported` (the generated file is then replaced
by one that does not compile, every dependant proof fails, the tie is reported as broken).
"""
import ast

import py2coq
from py2coq import Unsupported, Val


def _np_dtype(node, where):
    """`np.dtype(np.uint8)` / `np.dtype(int)` -> (name, signed, bits), by asking numpy itself."""
    if not (isinstance(node, ast.Call) and ast.unparse(node.func) == 'np.dtype' and len(node.args) == 1
            and not node.keywords):
        raise Unsupported(f'{where}: expected np.dtype(...), got {ast.unparse(node)}')
    a = node.args[0]
    try:
        import numpy as np
    except Exception as e:  # fail closed
        raise Unsupported(f'numpy is not importable in the translator: {e}')
    if isinstance(a, ast.Attribute) and isinstance(a.value, ast.Name) and a.value.id == 'np':
        if not hasattr(np, a.attr):
            raise Unsupported(f'{where}: numpy has no attribute {a.attr}')
        dt = np.dtype(getattr(np, a.attr))
    elif isinstance(a, ast.Name) and a.id == 'int':
        dt = np.dtype(int)
    else:
        raise Unsupported(f'{where}: unsupported dtype argument {ast.unparse(a)}')
    if dt.kind not in ('i', 'u'):
        raise Unsupported(f'{where}: {dt.name} is not an integer dtype (kind {dt.kind!r})')
    return dt.name, dt.kind == 'i', dt.itemsize * 8


def _dtype_term(d):
    name, signed, bits = d
    return f'({py2coq.coq_string(name)}, {"true" if signed else "false"}, ({bits})%Z)'


def gen_match(repo):
    tree = ast.parse(py2coq.src(repo, 'graphtage/matching.py'))
    sym = py2coq.Sym()

    # ---- the table
    table = None
    for n in tree.body:
        tgt = None
        if isinstance(n, ast.AnnAssign) and isinstance(n.target, ast.Name):
            tgt, val = n.target.id, n.value
        elif isinstance(n, ast.Assign) and len(n.targets) == 1 and isinstance(n.targets[0], ast.Name):
            tgt, val = n.targets[0].id, n.value
        if tgt == 'INTEGER_DTYPE_INTERVALS':
            if table is not None:
                raise Unsupported('INTEGER_DTYPE_INTERVALS assigned twice')
            table = val
    if table is None:
        raise Unsupported('INTEGER_DTYPE_INTERVALS not found at module level')
    # no other binding anywhere in the module (the only non-Load occurrence is the defining assignment)
    stores = [n for n in ast.walk(tree) if isinstance(n, ast.Name) and n.id == 'INTEGER_DTYPE_INTERVALS'
              and not isinstance(n.ctx, ast.Load)]
    if len(stores) != 1:
        raise Unsupported(f'INTEGER_DTYPE_INTERVALS bound {len(stores)} times (lines {[n.lineno for n in stores]})')
    if not isinstance(table, (ast.Tuple, ast.List)) or not table.elts:
        raise Unsupported('INTEGER_DTYPE_INTERVALS is not a non-empty tuple/list literal')
    rows = []
    for k, e in enumerate(table.elts):
        if not (isinstance(e, ast.Tuple) and len(e.elts) == 3):
            raise Unsupported(f'INTEGER_DTYPE_INTERVALS row {k}: expected a 3-tuple, got {ast.unparse(e)}')
        lo, hi = sym.expr(e.elts[0], {}), sym.expr(e.elts[1], {})
        if lo.ty != 'Z' or hi.ty != 'Z':
            raise Unsupported(f'INTEGER_DTYPE_INTERVALS row {k}: bounds are not integers')
        rows.append((lo.term, hi.term, _np_dtype(e.elts[2], f'INTEGER_DTYPE_INTERVALS row {k}')))

    # ---- get_dtype
    f = py2coq.find_func(tree, 'get_dtype')
    if not isinstance(f, ast.FunctionDef) or f.decorator_list:
        raise Unsupported('get_dtype is not a plain function')
    a = f.args
    if [x.arg for x in a.args] != ['min_value', 'max_value'] or a.vararg or a.kwarg or a.kwonlyargs \
            or a.posonlyargs or a.defaults:
        raise Unsupported('get_dtype signature changed')
    body = list(f.body)
    if body and isinstance(body[0], ast.Expr) and isinstance(body[0].value, ast.Constant) \
            and isinstance(body[0].value.value, str):
        body = body[1:]
    if len(body) != 2 or not isinstance(body[0], ast.For) or not isinstance(body[1], ast.Return):
        raise Unsupported('get_dtype body is not `for ...: if ...: return ...` followed by `return ...`')
    loop, fallback = body
    if ast.unparse(loop.iter) != 'INTEGER_DTYPE_INTERVALS' or loop.orelse:
        raise Unsupported('get_dtype loop does not iterate over INTEGER_DTYPE_INTERVALS: ' + ast.unparse(loop.iter))
    t = loop.target
    if not (isinstance(t, ast.Tuple) and len(t.elts) == 3 and all(isinstance(x, ast.Name) for x in t.elts)):
        raise Unsupported('get_dtype loop target is not a 3-tuple of names')
    vlo, vhi, vdt = (x.id for x in t.elts)
    if len({vlo, vhi, vdt, 'min_value', 'max_value'}) != 5:
        raise Unsupported('get_dtype loop variables shadow each other or the arguments')
    if len(loop.body) != 1 or not isinstance(loop.body[0], ast.If) or loop.body[0].orelse:
        raise Unsupported('get_dtype loop body is not a single `if` without else')
    cond_node = loop.body[0]
    if len(cond_node.body) != 1 or not isinstance(cond_node.body[0], ast.Return) \
            or not isinstance(cond_node.body[0].value, ast.Name) or cond_node.body[0].value.id != vdt:
        raise Unsupported('get_dtype loop does not `return <the row\'s dtype>`')
    env = {vlo: Val('min_range', 'Z'), vhi: Val('max_range', 'Z'),
           'min_value': Val('min_value', 'Z'), 'max_value': Val('max_value', 'Z')}
    cond = sym.expr(cond_node.test, env)
    if cond.ty != 'bool':
        raise Unsupported(f'get_dtype condition has type {cond.ty}')
    fb = _np_dtype(fallback.value, 'get_dtype fallback')

    out = ['(* GENERATED by /verif/translator/gen_match.py from graphtage/matching.py; do not edit *)',
           'From Coq Require Import String List Bool ZArith.',
           'Import ListNotations.', 'Open Scope string_scope.', '',
           '(* a numpy integer dtype: (name, signed?, bits) - signedness and width are numpy\'s own answer *)',
           'Definition np_dtype : Type := (string * bool * Z)%type.', '',
           '(* INTEGER_DTYPE_INTERVALS, row by row: (min_range, max_range, dtype) *)',
           'Definition INTEGER_DTYPE_INTERVALS : list (Z * Z * np_dtype) := [']
    out.append(';\n'.join(f'  ({lo}, {hi}, {_dtype_term(d)})' for lo, hi, d in rows))
    out += ['].', '',
            f'(* `return {ast.unparse(fallback.value)}` *)',
            f'Definition get_dtype_fallback : np_dtype := {_dtype_term(fb)}.', '',
            f'(* for {vlo}, {vhi}, {vdt} in INTEGER_DTYPE_INTERVALS: if {ast.unparse(cond_node.test)}: return {vdt} *)',
            'Fixpoint get_dtype_loop (rows : list (Z * Z * np_dtype)) (min_value max_value : Z) : np_dtype :=',
            '  match rows with',
            '  | [] => get_dtype_fallback',
            '  | (min_range, max_range, dtype) :: rest =>',
            f'      if {cond.term} then dtype',
            '      else get_dtype_loop rest min_value max_value',
            '  end.', '',
            'Definition get_dtype (min_value max_value : Z) : np_dtype :=',
            '  get_dtype_loop INTEGER_DTYPE_INTERVALS min_value max_value.']
    return '\n'.join(out) + '\n'


if __name__ == '__main__':
    import sys
    print(gen_match(sys.argv[1] if len(sys.argv) > 1 else '/repo'))
