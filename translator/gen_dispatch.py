"""Generator of coq/gen/DispatchGen.v (property C13): the finite tables of graphtage's formatting protocol.

On every run, from /repo's current code:
  * by reflection (a subprocess importing graphtage from the repo): every Formatter class reachable from the
    global FORMATTERS list with its sub_format_types, is_partial and the owner class of each print_* /
    edit_print / print attribute; the global FORMATTERS order; the default formatter of each file type; the MRO
    (class names) of every TreeNode and every Edit class; and the outcome of calling every leaf print method
    on a sample of each scalar kind (leaf-emitter definedness, e.g. plistlib has no null);
  * by `ast`: a SUMMARY of every print method: which formatter (self / parent / parent.parent / sub_formatters[k])
    is asked to print what (the same node / a child / a freshly built container), which other print method is
    run in place (super().print_X / self.print_X), and whether live children are wrapped in a new container
    without copying.  Unknown constructs that could print or dispatch are translation errors (fail closed);
  * hand-audited tables that cannot be derived mechanically (which classes a tree of each input type can
    contain; which node classes carry edits that print their sub-edits through the same formatter; the
    print-protocol itself, modelled by hand in DispatchModel.v), each tied to a hash of the sources it was
    audited against: an edited source invalidates the table -> translator error -> tie broken.
"""
import ast
import hashlib
import json
import os
import subprocess
import textwrap

PY = '/venv/bin/python'


# ------------------------------------------------------------------ scalar classes of leaf values
# Shared by the probe below and by the harness (which records the scalar class of every leaf it sees printed).

def scalar_kind(obj):
    """The scalar class of the Python value wrapped by a LeafNode."""
    if obj is None:
        return 'null'
    if isinstance(obj, bool):
        return 'bool'
    if isinstance(obj, int):
        return 'int' if -2 ** 63 <= obj < 2 ** 64 else 'bigint'      # inside / outside int64 + uint64
    if isinstance(obj, float):
        if obj != obj:
            return 'nan'
        if obj in (float('inf'), float('-inf')):
            return 'inf'
        return 'float'
    if isinstance(obj, bytes):
        return 'bytes'
    if isinstance(obj, str):
        if obj == '':
            return 'str-empty'
        if any((ord(c) < 32 and c not in '\n\t\r') or ord(c) == 127 for c in obj):
            return 'str-control'
        if any(0xD800 <= ord(c) <= 0xDFFF for c in obj):
            return 'str-surrogate'
        if any(ord(c) > 0xFFFF for c in obj):
            return 'str-astral'
        if any(ord(c) > 126 for c in obj):
            return 'str-nonascii'
        if any(c in '"\'<>&\n\t\r\\' for c in obj):
            return 'str-special'
        return 'str'
    return 'other:' + type(obj).__name__


# several samples per scalar class; a class is accepted by a leaf print method iff every sample returns normally
SAMPLES = {
    'NullNode': [None],
    'BoolNode': [True, False],
    'IntegerNode': [1, 0, -1, 2 ** 63 - 1, -2 ** 63, 2 ** 64 - 1, 2 ** 64, -2 ** 63 - 1, 10 ** 30, -10 ** 30],
    'FloatNode': [1.5, 0.0, -0.0, 1e308, 5e-324, 1e22, -1e-7, float('inf'), float('-inf'), float('nan')],
    'StringNode': ['x', 'word two', 'y' * 2000, '', 'say "hi" <b>&amp;</b> it\'s\nline\ttab \\', '# hash', 'Zo\u00eb \u4e2d',
                   '\U0001F600 astral', 'ctl\x01\x7f', 'nul\x00', b'by', b'\xff\x00'],
}

REFLECT = r'''
import sys, json, inspect, io, textwrap
import graphtage, graphtage.__main__ as gm
import graphtage.formatter as gf, graphtage.tree as gt, graphtage.edits as ge
from graphtage.printer import Printer
from graphtage import pydiff, sequences, dataclasses as gdc, builder, ast as gast, plist, xml as gxml, csv as gcsv, yaml as gyaml
from graphtage import json as gjson, pickle as gpickle, graphtage as gg

def src(o):
    if isinstance(o, (staticmethod, classmethod)):
        o = o.__func__
    return textwrap.dedent(inspect.getsource(o))

def subclasses(c):
    out, todo = [], [c]
    while todo:
        k = todo.pop(0)
        for s in k.__subclasses__():
            if s not in out:
                out.append(s); todo.append(s)
    return out

# ---- formatter classes reachable from the global list
# (+ SequenceFormatter: SequenceNode.print builds an ad-hoc instance of it, reached from print_parent_context in -d)
fclasses, todo = [], [type(f) for f in gf.FORMATTERS] + [sequences.SequenceFormatter]
while todo:
    k = todo.pop(0)
    if k in fclasses:
        continue
    fclasses.append(k)
    todo += list(k.sub_format_types)
fmts = []
for k in fclasses:
    methods = {}
    for name in dir(k):
        if name.startswith('print_') or name in ('print', 'edit_print'):
            owner = next(c for c in k.__mro__ if name in c.__dict__)
            f = owner.__dict__[name]
            methods[name] = {'owner': owner.__name__, 'src': src(f)}
    fmts.append({'name': k.__name__, 'subs': [s.__name__ for s in k.sub_format_types], 'partial': bool(k.is_partial),
                 'methods': methods, 'bases': [c.__name__ for c in k.__mro__]})
for f in gf.FORMATTERS:
    assert f.parent is None
defaults = {}
for t, ft in graphtage.FILETYPES_BY_TYPENAME.items():
    d = ft.get_default_formatter()
    assert d is type(d).DEFAULT_INSTANCE and d.parent is None and d in gf.FORMATTERS, t
    defaults[t] = type(d).__name__

# ---- node and edit classes
nodes = []
for k in subclasses(gt.TreeNode):
    if issubclass(k, gt.EditedTreeNode):
        continue
    nodes.append({'name': k.__name__, 'mro': [c.__name__ for c in k.__mro__],
                  'leaf': issubclass(k, gg.LeafNode), 'container': issubclass(k, gt.ContainerNode)})
edits = []
for k in subclasses(ge.AbstractEdit):
    owner = next(c for c in k.__mro__ if 'print' in c.__dict__)
    edits.append({'name': k.__name__, 'mro': [c.__name__ for c in k.__mro__], 'print_owner': owner.__name__})
# the Edited* construction rule, checked on one class
e = gg.ListNode.edited_type()
assert [c.__name__ for c in e.__mro__][:3] == ['EditedListNode', 'EditedTreeNode', 'ListNode']
assert [c.__name__ for c in e.__mro__][2:] == [c.__name__ for c in gg.ListNode.__mro__]

# ---- leaf emitters: call every leaf print method on several samples of every scalar class
from gen_dispatch import scalar_kind, SAMPLES
def mk(leaf, v):
    return gg.NullNode() if leaf == 'NullNode' else getattr(gg, leaf)(v)
for leaf, vals in SAMPLES.items():
    for v in vals:
        assert not scalar_kind(v).startswith('other:')
def instances(f):
    yield f
    for s in f.sub_formatters:
        yield from instances(s)
probe = {}
for root in gf.FORMATTERS:
    for inst in instances(root):
        k = type(inst)
        for name in dir(k):
            if not name.startswith('print_'):
                continue
            target = name[len('print_'):]
            owner = next(c for c in k.__mro__ if name in c.__dict__).__name__
            for leaf, vals in SAMPLES.items():
                lk = getattr(gg, leaf)
                if target not in [c.__name__ for c in lk.__mro__]:
                    continue
                if (owner, name, leaf) in probe:
                    continue
                kinds = {}
                for v in vals:
                    p = Printer(io.StringIO(), ansi_color=False, quiet=True)
                    kd = scalar_kind(v)
                    try:
                        getattr(inst, name)(p, mk(leaf, v))
                        kinds.setdefault(kd, [True, ''])
                    except Exception as ex:
                        kinds[kd] = [False, type(ex).__name__]
                probe[(owner, name, leaf)] = kinds
probe = [[o, n, l, sorted((k, v[0], v[1]) for k, v in kinds.items())] for (o, n, l), kinds in sorted(probe.items())]

# ---- key positions: a mapping key is printed by the key/value-pair printer, not only by the leaf methods.
# Every print_KeyValuePairNode / print_KeywordArgument is called on a fresh pair whose key is a sample of every
# scalar class (value: a plain string); a failure counts against the key position only when the formatter prints
# the same key on its own without failing (otherwise it is the leaf method's, already in the table above).
kvp_classes = {'print_KeyValuePairNode': gg.KeyValuePairNode, 'print_KeywordArgument': gast.KeywordArgument}
keyprobe = {}
for root in gf.FORMATTERS:
    for inst in instances(root):
        k = type(inst)
        for name, kvp_cls in kvp_classes.items():
            if not hasattr(inst, name):
                continue
            owner = next(c for c in k.__mro__ if name in c.__dict__).__name__
            if (owner, name) in keyprobe:
                continue
            kinds = {}
            for leaf, vals in SAMPLES.items():
                for v in vals:
                    kd = 'key:' + scalar_kind(v)
                    try:
                        inst.print(Printer(io.StringIO(), ansi_color=False, quiet=True), mk(leaf, v))
                    except Exception:
                        kinds.setdefault(kd, [True, ''])
                        continue
                    try:
                        getattr(inst, name)(Printer(io.StringIO(), ansi_color=False, quiet=True),
                                            kvp_cls(mk(leaf, v), gg.StringNode('v')))
                        kinds.setdefault(kd, [True, ''])
                    except Exception as ex:
                        kinds[kd] = [False, type(ex).__name__]
            keyprobe[(owner, name)] = kinds
probe += [[o, n, '#key', sorted((k, v[0], v[1]) for k, v in kinds.items())] for (o, n), kinds in sorted(keyprobe.items())]

# ---- sources the hand-audited tables are tied to
main_src = src(gm.main)
audit = {
 'grammar': [src(gjson.build_tree), src(gyaml.build_tree), src(gcsv.build_tree), src(gxml.build_tree),
             src(gxml.XMLElement.__init__), src(gxml.XMLElement.children), src(plist.build_tree),
             src(plist.PLISTNode.__init__), src(plist.PLISTNode.__iter__), src(pydiff.ASTBuilder),
             src(pydiff.ast_to_tree), src(gast), src(builder.BasicBuilder), src(gg.KeyValuePairNode.children),
             src(gg.MappingNode.from_dict), src(gg.DictNode.from_dict), src(gg.FixedKeyDictNode.from_dict),
             src(gjson.JSON.build_tree), src(gjson.JSON5.build_tree), src(gyaml.YAML.build_tree),
             src(gcsv.CSV.build_tree), src(gxml.XML.build_tree), src(plist.PLIST.build_tree),
             src(gpickle.Pickle.build_tree), src(gdc.DataClassNode.__iter__), src(gdc.DataClassNode.items)],
 'protocol': [src(gt.GraphtageFormatter.print), src(gf.Formatter.get_formatter), src(gt.Edit.print),
              src(ge.AbstractCompoundEdit.print), src(ge.Match.print), src(ge.Replace.print), src(ge.Remove.print),
              src(ge.Insert.print), src(ge.EditCollection.print), src(sequences.SequenceEdit.print),
              src(gxml.XMLElementEdit.print), src(gg.KeyValuePairEdit.print), src(gg.StringEdit.print),
              src(pydiff.PyObjEdit.print), src(gt.TreeNode.parent.fset), src(gt.ContainerNode.__init_subclass__),
              src(gt.TreeNodeMeta.edited_type)]
             + sorted(src(k.__dict__['edits']) for k in subclasses(gt.TreeNode)
                      if 'edits' in k.__dict__ and not issubclass(k, gt.EditedTreeNode)),
 'resolution': [src(gf._get_formatter), src(gf.get_formatter), src(gf.Formatter.__new__),
                src(gf.FormatterChecker.__init__)],
 'context': sorted(src(k.__dict__['print_parent_context']) for k in subclasses(gt.TreeNode)
                   if 'print_parent_context' in k.__dict__ and not issubclass(k, gt.EditedTreeNode))
            + [src(gg.LeafNode.print), src(gg.StringNode.print), src(sequences.SequenceNode.print)],
 'main': main_src,
}
print('@@J ' + json.dumps({'formatters': fmts, 'global': [type(f).__name__ for f in gf.FORMATTERS],
                           'defaults': defaults, 'nodes': nodes, 'edits': edits, 'probe': probe, 'audit': audit}))
sys.stdout.flush()
import os
os._exit(0)
'''


class TranslationError(Exception):
    pass


def reflect(repo):
    env = dict(os.environ)
    env['PYTHONPATH'] = repo + os.pathsep + os.path.dirname(os.path.abspath(__file__))
    env['PYTHONHASHSEED'] = '0'
    env['PYTHONDONTWRITEBYTECODE'] = '1'
    p = subprocess.run(['timeout', '120', PY, '-c', REFLECT], env=env, stdout=subprocess.PIPE, stderr=subprocess.PIPE,
                       text=True, cwd=os.path.dirname(os.path.abspath(__file__)))
    for line in p.stdout.split('\n'):
        if line.startswith('@@J '):
            return json.loads(line[4:])
    raise TranslationError('reflection of graphtage failed: ' + p.stderr[-600:])


# ------------------------------------------------------------------ hand-audited tables

def sha(texts):
    if isinstance(texts, str):
        texts = [texts]
    return hashlib.sha256('\x00'.join(texts).encode()).hexdigest()[:16]


# hashes of the sources the tables below were audited against (see REFLECT['audit'])
AUDITED = {
    'grammar': None,
    'protocol': None,
    'resolution': None,
    'context': None,
    'main_dispatch': None,
}
AUDITED.update({
    # filled in by hand after reading the code; `python gen_dispatch.py --hashes` prints the current values
    'grammar': '40afb0b6292301b7',
    'protocol': 'fe24e036be4a2d27',   # re-audited after a35fb43 (LeafNode.edits caps the Match cost; edit classes unchanged)
    'resolution': '58a2c94611ecc80a',
    'context': '42fbf238966f7e17',
    'main_dispatch': '4224ae09d71267ac',
})

SCALARS = ['IntegerNode', 'FloatNode', 'BoolNode', 'StringNode', 'NullNode']
JSON_VALUES = SCALARS + ['ListNode', 'DictNode', 'FixedKeyDictNode']
JSON_GRAMMAR = {'ListNode': JSON_VALUES, 'DictNode': ['KeyValuePairNode'], 'FixedKeyDictNode': ['KeyValuePairNode'],
                'KeyValuePairNode': JSON_VALUES}
XML_GRAMMAR = {'XMLElement': ['StringNode', 'DictNode', 'FixedKeyDictNode', 'XMLElementChildren'],
               'XMLElementChildren': ['XMLElement'], 'DictNode': ['KeyValuePairNode'],
               'FixedKeyDictNode': ['KeyValuePairNode'], 'KeyValuePairNode': ['StringNode']}
PY_EXPR = JSON_VALUES + ['MultiSetNode', 'Call', 'Subscript', 'PyObjAttribute']
PY_GRAMMAR = {'Module': ['Assignment', 'Import'] + PY_EXPR, 'Assignment': ['ListNode'] + PY_EXPR,
              'Import': ['ListNode', 'StringNode'], 'ListNode': PY_EXPR + ['PyAlias'], 'PyAlias': ['StringNode'],
              'Call': PY_EXPR + ['CallArguments', 'CallKeywords'], 'CallArguments': PY_EXPR, 'CallKeywords': [],
              'Subscript': PY_EXPR, 'PyObjAttribute': PY_EXPR, 'DictNode': ['KeyValuePairNode'],
              'FixedKeyDictNode': ['KeyValuePairNode'], 'KeyValuePairNode': PY_EXPR, 'MultiSetNode': PY_EXPR}
# input type -> (classes the root can have, class -> classes of its children); audited against AUDITED['grammar']
GRAMMAR = {
    'json': (JSON_VALUES, JSON_GRAMMAR),
    'json5': (JSON_VALUES, JSON_GRAMMAR),
    'yaml': (JSON_VALUES, JSON_GRAMMAR),
    # csv.reader yields str cells only: json.build_tree(str) is a StringNode
    'csv': (['CSVNode'], {'CSVNode': ['CSVRow'], 'CSVRow': ['StringNode']}),
    'xml': (['XMLElement'], XML_GRAMMAR),
    'html': (['XMLElement'], XML_GRAMMAR),
    # plistlib.load never yields None (bytes / datetime values are rejected by json.build_tree: ValueError at load)
    'plist': (['PLISTNode'], dict({k: [x for x in v if x != 'NullNode'] for k, v in JSON_GRAMMAR.items()},
                                  PLISTNode=[x for x in JSON_VALUES if x != 'NullNode'])),
    'pickle': (['Module'], PY_GRAMMAR),
}
# scalar classes (scalar_kind) a leaf of each input type can carry; audited against AUDITED['grammar']:
# json.build_tree decodes bytes to str (so only pickle, through BasicBuilder.build_str, keeps bytes objects);
# csv / xml / html leaves are strings; XML 1.0 has no control characters; plistlib carries neither null nor
# integers outside int64/uint64
_STR = ['str', 'str-empty', 'str-special', 'str-nonascii', 'str-astral']
_NUM = ['bool', 'int', 'float', 'inf', 'nan']
KINDS = {
    'json': ['null', 'bigint', 'str-control'] + _NUM + _STR,
    'json5': ['null', 'bigint', 'str-control'] + _NUM + _STR,
    'yaml': ['null', 'bigint', 'str-control'] + _NUM + _STR,
    'csv': ['str-control'] + _STR,
    'xml': _STR,
    'html': _STR,
    'plist': _NUM + _STR,
    'pickle': ['null', 'bigint', 'str-control', 'bytes'] + _NUM + _STR,
}
# scalar classes a MAPPING KEY of each input type can carry (json.build_tree(key, force_leaf_node=True): bool, int,
# float, str; JSON / JSON5 / XML attribute / plist keys are strings; pickle keys are built by BasicBuilder: any leaf)
_KSTR = ['key:' + k for k in _STR]
KEYKINDS = {
    'json': _KSTR + ['key:str-control'], 'json5': _KSTR + ['key:str-control'],
    'yaml': _KSTR + ['key:str-control', 'key:bool', 'key:int', 'key:bigint', 'key:float', 'key:inf', 'key:nan'],
    'csv': [], 'xml': _KSTR, 'html': _KSTR, 'plist': _KSTR,
    'pickle': _KSTR + ['key:str-control', 'key:bool', 'key:int', 'key:bigint', 'key:float', 'key:inf', 'key:nan',
                       'key:null', 'key:bytes'],
}
# node classes (and their subclasses) whose edit prints its sub-edits one by one through the SAME formatter
# (AbstractCompoundEdit.print / EditCollection.print); audited against AUDITED['protocol']
SUBEDIT_NODES = ['DataClassNode', 'PLISTNode']
# (root formatter class, class) pairs printed by print_parent_context / node.print in the edit digest (-d);
# audited against AUDITED['context']
# (a non-leaf mapping key - a pickled tuple / frozenset key - is printed by SequenceNode.print through an ad-hoc
#  SequenceFormatter('[', ']', ','))
CONTEXT_ENTRIES = [('StringFormatter', 'StringNode'), ('XMLFormatter', 'StringNode'),
                   ('SequenceFormatter', 'ListNode'), ('SequenceFormatter', 'MultiSetNode')]
# print methods that contain a `raise`: the audited condition under which it fires and why it cannot with the
# grammar above (keyed by owner.method and the hash of the method source)
AUDITED_RAISES = {
    'PyObjFormatter.print_Call': ('2c43ec14195f0626', 'raises NotImplementedError iff node.kwargs has children; '
                                  'ASTBuilder.build_call always builds CallKeywords(()) (PY_GRAMMAR: no children)'),
}


# ------------------------------------------------------------------ summaries of print methods by ast

class Summ:
    def __init__(self):
        self.actions = []     # ('call', target, what) | ('inline', 'super'|'self', owner_or_None, name, what)
        self.wrap = 'WNone'   # WNone | WCopy | WNoCopy


def _is_name(n, name):
    return isinstance(n, ast.Name) and n.id == name


def _target(recv):
    """self -> TSelf, self.parent -> TParent, self.parent.parent -> TGrandParent, self.sub_formatters[k] -> TSub k"""
    if _is_name(recv, 'self'):
        return 'TSelf'
    if isinstance(recv, ast.Attribute) and recv.attr == 'parent':
        inner = _target(recv.value)
        if inner == 'TSelf':
            return 'TParent'
        if inner == 'TParent':
            return 'TGrandParent'
        return None
    if (isinstance(recv, ast.Subscript) and isinstance(recv.value, ast.Attribute) and recv.value.attr == 'sub_formatters'
            and _is_name(recv.value.value, 'self')):
        idx = recv.slice
        if isinstance(idx, ast.Index):  # py3.8
            idx = idx.value
        if isinstance(idx, ast.Constant) and isinstance(idx.value, int) and idx.value >= 0:
            return f'(TSub {idx.value})'
    return None


def summarise(owner, name, source, node_class_names):
    """Summary of one print method (or edit_print). Raises TranslationError on anything not understood."""
    where = f'{owner}.{name}'
    tree = ast.parse(source)
    fn = tree.body[0]
    if not isinstance(fn, ast.FunctionDef):
        raise TranslationError(f'{where}: not a plain function')
    params = [a.arg for a in fn.args.args]
    star = fn.args.vararg.arg if fn.args.vararg else None
    # the parameter holding the item being printed: the one after `printer`, or *args
    item = None
    if 'printer' in params:
        rest = params[params.index('printer') + 1:]
        item = rest[0] if rest else None
    elif len(params) >= 3:
        item = params[2]
    s = Summ()
    fresh = {}       # local name -> (class, wrap)
    parts = {}       # local name -> wrap kind of a list of freshly built nodes

    def mentions_item(e, copied=False):
        """(mentions the item's live sub-nodes without .copy(), mentions them through .copy())"""
        live = cop = False
        for n in ast.walk(e):
            if isinstance(n, ast.Name) and (n.id == item or n.id in parts):
                if n.id in parts:
                    if parts[n.id] == 'WNoCopy':
                        live = True
                    elif parts[n.id] == 'WCopy':
                        cop = True
                else:
                    live = True
        # `.copy()` applied inside a generator over the item's children: every yielded node is a copy
        for n in ast.walk(e):
            if isinstance(n, ast.Call) and isinstance(n.func, ast.Attribute) and n.func.attr == 'copy':
                cop = True
        if cop and live:
            # conservative reading: treat `c.copy() for c in node.children()` as copied only when every
            # element expression is a .copy() call
            elts = [g.elt for g in ast.walk(e) if isinstance(g, (ast.GeneratorExp, ast.ListComp))]
            if elts and all(isinstance(x, ast.Call) and isinstance(x.func, ast.Attribute) and x.func.attr == 'copy'
                            for x in elts):
                live = False
        return live, cop

    def ctor(e):
        """A constructor call of a TreeNode class -> (class name, wrap kind) or None."""
        if isinstance(e, ast.Call) and isinstance(e.func, ast.Name) and e.func.id in node_class_names:
            live = cop = False
            for a in list(e.args) + [k.value for k in e.keywords]:
                inner = ctor(a)
                if inner is not None:
                    live = live or inner[1] == 'WNoCopy'
                    cop = cop or inner[1] == 'WCopy'
                    continue
                l, c = mentions_item(a)
                live, cop = live or l, cop or c
            return e.func.id, ('WNoCopy' if live else 'WCopy' if cop else 'WNone')
        return None

    def what_of(e):
        if isinstance(e, ast.Starred) and star and _is_name(e.value, star):
            return 'WSame'
        if item and _is_name(e, item):
            return 'WSame'
        if isinstance(e, ast.Attribute) and item and _is_name(e.value, item):
            return 'WSame' if e.attr == 'edit' else 'WChild'
        if isinstance(e, ast.Name) and e.id in fresh:
            return f'(WFresh "{fresh[e.id][0]}")'
        if isinstance(e, ast.Name) and e.id in derived:
            return 'WChild'       # a loop variable over the item's children / their edits
        c = ctor(e)
        if c is not None:
            note_wrap(c[1])
            return f'(WFresh "{c[0]}")'
        raise TranslationError(f'{where}: cannot tell what is printed by `{ast.unparse(e)}`')

    def note_wrap(w):
        order = ['WNone', 'WCopy', 'WNoCopy']
        if order.index(w) > order.index(s.wrap):
            s.wrap = w

    def item_arg(call):
        """The item argument of a print-like call: 2nd positional (after printer), `*args`, or keyword."""
        for k in call.keywords:
            if k.arg in ('node', 'node_or_edit', 'item', 'edit'):
                return k.value
        args = call.args
        if len(args) >= 2:
            return args[1]
        if len(args) == 1 and isinstance(args[0], ast.Starred):
            return args[0]
        raise TranslationError(f'{where}: no item argument in `{ast.unparse(call)}`')

    # names derived from the item by iteration (`for i, edit in enumerate(edits)`, `edits = node.edit.edits()`, ...)
    derived = set()

    def uses(e):
        return any(isinstance(n, ast.Name) and (n.id == item or n.id in derived) for n in ast.walk(e))

    def bind(t):
        return {n.id for n in ast.walk(t) if isinstance(n, ast.Name)}
    changed = True
    while changed:
        before = len(derived)
        for st in ast.walk(fn):
            if isinstance(st, ast.For) and uses(st.iter):
                derived |= bind(st.target)
            elif isinstance(st, ast.AnnAssign) and st.value is not None and uses(st.value) and ctor(st.value) is None:
                derived |= bind(st.target)
            elif isinstance(st, ast.Assign) and uses(st.value) and ctor(st.value) is None \
                    and not isinstance(st.value, (ast.List, ast.Tuple)):
                for t in st.targets:
                    if isinstance(t, ast.Name):
                        derived |= bind(t)
        derived.discard(item)
        changed = len(derived) != before
    for st in ast.walk(fn):
        if isinstance(st, ast.Assign) and len(st.targets) == 1 and isinstance(st.targets[0], ast.Name):
            c = ctor(st.value)
            if c is not None:
                fresh[st.targets[0].id] = c
                note_wrap(c[1])
            elif isinstance(st.value, (ast.List, ast.Tuple)):
                ws = [ctor(x) for x in st.value.elts]
                if ws and all(w is not None for w in ws):
                    k = 'WNoCopy' if any(w[1] == 'WNoCopy' for w in ws) else 'WCopy' if any(w[1] == 'WCopy' for w in ws) else 'WNone'
                    parts[st.targets[0].id] = k
                    note_wrap(k)
        if isinstance(st, ast.Raise):
            key = f'{owner}.{name}'
            if key not in AUDITED_RAISES or AUDITED_RAISES[key][0] != sha(source):
                raise TranslationError(f'{where}: contains a `raise` that has not been audited (source hash {sha(source)})')
    for st in ast.walk(fn):
        if not isinstance(st, ast.Call):
            continue
        f = st.func
        c = ctor(st)
        if c is not None:
            note_wrap(c[1])       # also constructor calls appended to lists: kvps.append(KeyValuePairNode(...))
            continue
        if not isinstance(f, ast.Attribute):
            continue
        attr = f.attr
        if attr == 'print':
            tgt = _target(f.value)
            if tgt is None:
                raise TranslationError(f'{where}: `{ast.unparse(st)}` prints through an unknown receiver')
            s.actions.append(('call', tgt, what_of(item_arg(st))))
        elif attr.startswith('print_') or attr == 'edit_print':
            recv = f.value
            if isinstance(recv, ast.Call) and _is_name(recv.func, 'super') and not recv.args:
                s.actions.append(('inline', 'super', owner, attr, what_of(item_arg(st))))
            elif _is_name(recv, 'self'):
                s.actions.append(('inline', 'self', None, attr, what_of(item_arg(st))))
            else:
                raise TranslationError(f'{where}: `{ast.unparse(st)}` runs a print method of an unknown receiver')
        elif attr in ('get_formatter', 'print_parent_context'):
            raise TranslationError(f'{where}: `{ast.unparse(st)}` resolves or prints outside the modelled protocol')
    return s





def check_print_override(owner, source):
    """A formatter's own `print` must only set printer attributes and delegate to super().print(printer, *args, **kwargs)."""
    fn = ast.parse(source).body[0]
    body = [b for b in fn.body if not (isinstance(b, ast.Expr) and isinstance(b.value, ast.Constant))]
    ok = len(body) >= 1
    for b in body[:-1]:
        ok = ok and isinstance(b, ast.Assign) and all(isinstance(t, ast.Attribute) and _is_name(t.value, 'printer') for t in b.targets)
    last = body[-1]
    ok = ok and isinstance(last, ast.Expr) and ast.unparse(last.value) == 'super().print(printer, *args, **kwargs)'
    if not ok:
        raise TranslationError(f'{owner}.print is not of the form `printer.x = ...; super().print(printer, *args, **kwargs)`')


def main_dispatch_src(main_source):
    """The statement of main() that selects mode and formatter: `if args.only_edits: ... elif args.edit_digest: ... else: ...`"""
    tree = ast.parse(main_source)
    for n in ast.walk(tree):
        if isinstance(n, ast.If) and ast.unparse(n.test) == 'args.only_edits':
            return ast.unparse(n)
    raise TranslationError('main(): the `if args.only_edits` statement was not found')


def extract(repo):
    r = reflect(repo)
    names = [f['name'] for f in r['formatters']]
    if len(set(names)) != len(names):
        raise TranslationError('two formatter classes share a name')
    nnames = [n['name'] for n in r['nodes']] + [e['name'] for e in r['edits']]
    if len(set(nnames)) != len(nnames):
        raise TranslationError('two node/edit classes share a name')
    if any(n.startswith('Edited') for n in nnames):
        raise TranslationError('a node class name starts with "Edited" (clashes with the edited-type rule)')
    hashes = {'grammar': sha(r['audit']['grammar']), 'protocol': sha(r['audit']['protocol']),
              'resolution': sha(r['audit']['resolution']), 'context': sha(r['audit']['context']),
              'main_dispatch': sha(main_dispatch_src(r['audit']['main']))}
    r['hashes'] = hashes
    return r


def check_audit(r):
    for k, v in r['hashes'].items():
        if AUDITED.get(k) != v:
            raise TranslationError(f'the sources behind the hand-audited table `{k}` changed (hash {v}, audited {AUDITED.get(k)}): '
                                   f're-audit translator/gen_dispatch.py')


def summaries(r):
    node_names = {n['name'] for n in r['nodes']}
    out = {}
    for f in r['formatters']:
        for mname, m in f['methods'].items():
            key = (m['owner'], mname)
            if key in out:
                continue
            if mname == 'print':
                if m['owner'] not in ('GraphtageFormatter',):
                    check_print_override(m['owner'], m['src'])
                continue
            out[key] = summarise(m['owner'], mname, m['src'], node_names)
    # `super().print_X` in class D resolves statically to the next owner after D in the MRO of D
    bases = {f['name']: f['bases'] for f in r['formatters']}
    all_owner_methods = {}
    for f in r['formatters']:
        for mname, m in f['methods'].items():
            all_owner_methods.setdefault(m['owner'], set()).add(mname)
    return out, bases, all_owner_methods


# ------------------------------------------------------------------ Gallina output

def cstr(s):
    return '"' + s.replace('"', '""') + '"'


def clist(xs, f=cstr):
    return '[' + '; '.join(f(x) for x in xs) + ']'


def gen_dispatch(repo):
    r = extract(repo)
    check_audit(r)
    summ, bases, _ = summaries(r)
    fmt_by_name = {f['name']: f for f in r['formatters']}

    def super_owner(cls, name):
        """owner of `name` reached by super() from class `cls`: next class after cls in cls's MRO that defines it.
        (all formatter classes here use single inheritance below GraphtageFormatter; checked)"""
        mro = bases[cls] if cls in bases else None
        if mro is None:
            # cls is an owner that is not itself reachable (e.g. SequenceFormatter): find a class having it in its MRO
            for f in r['formatters']:
                if cls in f['bases']:
                    mro = f['bases'][f['bases'].index(cls):]
                    break
        if mro is None:
            raise TranslationError(f'super() in unknown class {cls}')
        for c in mro[1:]:
            for f in r['formatters']:
                m = f['methods'].get(name)
                if m and m['owner'] == c:
                    return c
        raise TranslationError(f'super().{name} from {cls}: no owner found')

    L = ['(* GENERATED by translator/gen_dispatch.py from the working tree of the repository - do not edit *)',
         'From Coq Require Import String List Bool.', 'Require Import GT.DispatchSpec.', 'Import ListNotations.',
         'Open Scope string_scope.', '']
    L.append('(* formatter class -> (sub_format_types, is_partial, print attribute -> owner class) *)')
    L.append('Definition fmt_table : list (string * (list string * bool * list (string * string))) := [')
    rows = []
    for f in r['formatters']:
        ms = sorted((n, m['owner']) for n, m in f['methods'].items() if n != 'print')
        rows.append(f'  ({cstr(f["name"])}, ({clist(f["subs"])}, {"true" if f["partial"] else "false"},\n     '
                    + clist(ms, lambda p: f'({cstr(p[0])}, {cstr(p[1])})') + '))')
    L.append(';\n'.join(rows) + '].')
    L.append('')
    L.append(f'Definition global_formatters : list string := {clist(r["global"])}.')
    L.append('Definition default_formatter : list (string * string) := '
             + clist(sorted(r['defaults'].items()), lambda p: f'({cstr(p[0])}, {cstr(p[1])})') + '.')
    L.append('')
    L.append('(* class -> names of its MRO (TreeNode classes, then Edit classes) *)')
    L.append('Definition mro_table : list (string * list string) := [')
    L.append(';\n'.join(f'  ({cstr(n["name"])}, {clist(n["mro"])})' for n in r['nodes'] + r['edits']) + '].')
    L.append(f'Definition node_classes : list string := {clist([n["name"] for n in r["nodes"]])}.')
    L.append(f'Definition edit_classes : list string := {clist([e["name"] for e in r["edits"]])}.')
    L.append('')
    L.append('(* (owner class, method) -> summary extracted from the method source by ast *)')
    L.append('Definition method_table : list ((string * string) * msum) := [')
    rows = []
    for (owner, mname), s in sorted(summ.items()):
        acts = []
        for a in s.actions:
            if a[0] == 'call':
                acts.append(f'ACall {a[1]} {a[2]}')
            elif a[1] == 'super':
                acts.append(f'ARun (Some {cstr(super_owner(a[2], a[3]))}) {cstr(a[3])} {a[4]}')
            else:
                acts.append(f'ARun None {cstr(a[3])} {a[4]}')
        acts = list(dict.fromkeys(acts))
        rows.append(f'  (({cstr(owner)}, {cstr(mname)}), Build_msum {s.wrap} [' + '; '.join(acts) + '])')
    L.append(';\n'.join(rows) + '].')
    L.append('')
    L.append('(* (owner class, method, leaf class) -> scalar class of the value -> did the method return normally on every sample *)')
    L.append('Definition leaf_emit : list ((string * string * string) * list (string * bool)) := [')
    L.append(';\n'.join(f'  (({cstr(o)}, {cstr(m)}, {cstr(k)}), '
                        + clist(kinds, lambda kv: f'({cstr(kv[0])}, {"true" if kv[1] else "false"})') + ')'
                        for o, m, k, kinds in r['probe']) + '].')
    L.append('')
    L.append('(* hand-audited (source hashes checked by the generator): input type -> (root classes, class -> child classes) *)')
    L.append('Definition grammar_table : list (string * (list string * list (string * list string))) := [')
    rows = []
    known = {n['name'] for n in r['nodes']}
    for it in sorted(GRAMMAR):
        roots, g = GRAMMAR[it]
        for c in list(roots) + list(g) + [x for v in g.values() for x in v]:
            if c not in known:
                raise TranslationError(f'grammar of {it} names the unknown class {c}')
        probed = {k for _, _, _, kinds in r['probe'] for k, _, _ in kinds}
        for k in KINDS[it]:
            if k not in probed:
                raise TranslationError(f'scalar class {k} of {it} is not probed')
        rows.append(f'  ({cstr(it)}, ({clist(roots)},\n     ' +
                    clist(sorted(g.items()) + [('#kinds', KINDS[it]), ('#keykinds', KEYKINDS[it])],
                          lambda p: f'({cstr(p[0])}, {clist(p[1])})') + '))')
    L.append(';\n'.join(rows) + '].')
    for c in SUBEDIT_NODES:
        if c not in known:
            raise TranslationError(f'SUBEDIT_NODES names the unknown class {c}')
    L.append(f'Definition subedit_nodes : list string := {clist(SUBEDIT_NODES)}.')
    L.append('Definition context_entries : list (string * string) := '
             + clist(CONTEXT_ENTRIES, lambda p: f'({cstr(p[0])}, {cstr(p[1])})') + '.')
    L.append('')
    L.append('Definition tables : dtables := Build_dtables fmt_table global_formatters default_formatter mro_table '
             'method_table leaf_emit grammar_table subedit_nodes context_entries.')
    L.append('')
    L.append('(* audited source hashes: ' + json.dumps(r['hashes'], sort_keys=True) + ' *)')
    return '\n'.join(L) + '\n'


if __name__ == '__main__':
    import sys
    repo = os.environ.get('VERIF_REPO', '/repo')
    if '--hashes' in sys.argv:
        rr = extract(repo)
        print(json.dumps(rr['hashes'], indent=1))
        for ff in rr['formatters']:
            for mn, mm in ff['methods'].items():
                if 'raise' in mm['src'] and mn != 'print':
                    print('raise in', mm['owner'], mn, sha(mm['src']))
    else:
        print(gen_dispatch(repo))
