"""EdGen: the pieces of graphtage's edit engine that are translated from source on every run.

 translated (through py2coq.Sym): ListNode.edits dispatch, the surplus slices of FixedLengthSequenceEdit,
   EditDistance._best_match, the Replace/Remove/Insert cost formulas, Range.__lt__;
 recognised (the AST must be one of the enumerated variants, else Unsupported): the cell returned by
   levenshtein_distance, the leaf-match cost adjustment, the unmatched part of MultiSetEdit.bounds, the container
   FixedKeyDictNode._child_edits collects its removals in, the row-0/column-0 cost updates of _add_node.
"""
import ast

from py2coq import Sym, Unsupported, Val, find_func, src


def _norm(node):
    return ast.unparse(node)


class EdSym(Sym):
    ignorable = ('make_distinct',)

    def block(self, stmts, env, final):
        if stmts:
            s = stmts[0]
            if isinstance(s, ast.Expr) and isinstance(s.value, ast.Call) and _norm(s.value.func) in self.ignorable:
                return self.block(stmts[1:], env, final)
            if isinstance(s, ast.Assign) and len(s.targets) == 1 and isinstance(s.targets[0], ast.Tuple) \
                    and isinstance(s.value, ast.Tuple) and len(s.targets[0].elts) == len(s.value.elts) \
                    and all(isinstance(t, ast.Name) for t in s.targets[0].elts):
                env = dict(env)
                vals = [self.expr(v, env) for v in s.value.elts]
                for t, v in zip(s.targets[0].elts, vals):
                    env[t.id] = v
                return self.block(stmts[1:], env, final)
            if isinstance(s, ast.Assign) and len(s.targets) == 1 and isinstance(s.targets[0], ast.Subscript):
                key = _norm(s)
                if key not in self.expected_stores:
                    raise Unsupported(f'unexpected store {key} (line {s.lineno})')
                self.seen_stores.add(key)
                return self.block(stmts[1:], env, final)
        return super().block(stmts, env, final)

    def cmp_vals(self, op, a, b, key):
        if a.ty == 'range' and b.ty == 'range' and isinstance(op, ast.Lt):
            return f'(range_ltb {a.term} {b.term})'
        return super().cmp_vals(op, a, b, key)

    def merge(self, c, a, b, where):
        if a.ty == b.ty and a.term == b.term:
            return a
        if a.ty == b.ty and a.ty.startswith('tuple:'):
            return Val(f'(if {c} then {a.term} else {b.term})', a.ty)
        return super().merge(c, a, b, where)


def gen_best_match(tree):
    f = find_func(tree, 'EditDistance._best_match')
    if [a.arg for a in f.args.args] != ['self', 'row', 'col']:
        raise Unsupported('_best_match signature changed')
    Z = lambda t: Val(t, 'Z')
    leaves = {
        'self.costs[row - 1][col - 1]': Z('dC'), 'self.path_costs[row - 1][col - 1]': Z('dP'),
        'self.costs[row][col - 1]': Z('lC'), 'self.path_costs[row][col - 1]': Z('lP'),
        'self.costs[row - 1][col]': Z('uC'), 'self.path_costs[row - 1][col]': Z('uP'),
        'self.edit_matrix[row][col].bounds()': Val('(m, m)', 'range'),
        'self.edit_matrix[row][0].bounds()': Val('(i, i)', 'range'),
        'self.edit_matrix[0][col].bounds()': Val('(r, r)', 'range'),
        'self.edit_matrix[row][col]': Val('ECell', 'eref'),
        'self.edit_matrix[row][0]': Val('EIns', 'eref'),
        'self.edit_matrix[0][col]': Val('ERem', 'eref'),
    }
    sym = EdSym(leaves=leaves)
    sym.expected_stores = {'self.path_costs[row][col] = self.path_costs[brow][bcol] + 1',
                           'self.costs[row][col] = self.costs[brow][bcol] + edit.bounds().upper_bound'}
    sym.seen_stores = set()
    body = sym.block(f.body, {'row': Z('row'), 'col': Z('col')},
                     lambda e: (_ for _ in ()).throw(Unsupported('_best_match falls off its end')))
    if sym.seen_stores != sym.expected_stores:
        raise Unsupported('_best_match no longer updates costs/path_costs as expected')
    return ('(* EditDistance._best_match(row, col): (brow, bcol, which edit); d/l/u = diagonal/left/upper predecessor\n'
            '   (cost, path length); m, i, r = definitive costs of the cell edit, Insert(to[row-1]), Remove(from[col-1]);\n'
            '   the cell then gets cost[brow][bcol] + cost(edit) and path[brow][bcol] + 1 (stores checked by the translator) *)\n'
            'Definition best_match_gen (row col dC dP lC lP uC uP m i r : Z) : Z * Z * eref :=\n  ' + body + '.\n')


def gen_add_node(tree):
    f = find_func(tree, 'EditDistance._add_node')
    want = {'self.costs[0][col] = self.costs[0][col - 1] + edit.bounds().upper_bound',
            'self.path_costs[0][col] = self.path_costs[0][col - 1] + 1',
            'self.costs[row][0] = self.costs[row - 1][0] + edit.bounds().upper_bound',
            'self.path_costs[row][0] = self.path_costs[row - 1][0] + 1',
            'edit = Remove(to_remove=self.from_seq[col - 1], remove_from=self.from_node, penalty=self.penalty)',
            'edit = Insert(to_insert=self.to_seq[row - 1], insert_into=self.from_node, penalty=self.penalty)',
            'edit = self.from_seq[col - 1].edits(self.to_seq[row - 1])'}
    have = {_norm(s) for s in ast.walk(f) if isinstance(s, ast.Assign)}
    if not want <= have:
        raise Unsupported('_add_node changed: missing ' + '; '.join(sorted(want - have)))
    return '(* EditDistance._add_node: row-0 / column-0 cost updates and edit construction recognised unchanged *)\n'


def gen_list_dispatch(tree):
    f = find_func(tree, 'ListNode.edits')

    class S(EdSym):
        def ret(self, value, env):
            if not isinstance(value, ast.Call):
                raise Unsupported('ListNode.edits returns ' + _norm(value))
            fn = _norm(value.func)
            if fn == 'Match' and _norm(value) == 'Match(self, node, 0)':
                return 'LMatch0'
            if fn == 'Replace' and _norm(value) == 'Replace(self, node)':
                return 'LReplace'
            if fn == 'FixedLengthSequenceEdit' and {k.arg: _norm(k.value) for k in value.keywords} == \
                    {'from_node': 'self', 'to_node': 'node'} and not value.args:
                return 'LFixed'
            if fn == 'EditDistance' and [_norm(a) for a in value.args] == ['self', 'node', 'self._children', 'node._children'] \
                    and [k.arg for k in value.keywords] == ['insert_remove_penalty']:
                p = self.expr(value.keywords[0].value, env)
                if p.ty != 'Z':
                    raise Unsupported('penalty is not an int')
                return f'(LEditDist {p.term})'
            raise Unsupported('ListNode.edits returns ' + _norm(value))
    B = lambda t: Val(t, 'bool')
    sym = S(leaves={'isinstance(node, ListNode)': B('other_is_list'), 'self._children == node._children': B('children_eq'),
                    'self.allow_list_edits': B('ale'), 'self.allow_list_edits_when_same_length': B('alsl'),
                    'len(self._children)': Val('lf', 'Z'), 'len(node._children)': Val('lt', 'Z'),
                    'self.all_children_are_leaves()': B('leaves_f'), 'node.all_children_are_leaves()': B('leaves_t')})
    body = sym.block(f.body, {}, lambda e: (_ for _ in ()).throw(Unsupported('ListNode.edits falls off its end')))
    return ('(* ListNode.edits(node) *)\nDefinition list_dispatch_gen (other_is_list children_eq ale alsl : bool) (lf lt : Z) '
            '(leaves_f leaves_t : bool) : ldispatch :=\n  ' + body + '.\n')


def gen_surplus(tree):
    f = find_func(tree, 'FixedLengthSequenceEdit.__init__')
    found = {}
    conds = {}
    for n in ast.walk(f):
        if isinstance(n, ast.If):
            for s in n.body:
                tgt = None
                if isinstance(s, ast.AnnAssign):
                    tgt, val = s.target, s.value
                elif isinstance(s, ast.Assign) and len(s.targets) == 1:
                    tgt, val = s.targets[0], s.value
                if tgt is not None and _norm(tgt) in ('self.to_remove', 'self.to_insert') and isinstance(val, ast.Subscript):
                    found[_norm(tgt)] = val
                    conds[_norm(tgt)] = _norm(n.test)
    if set(found) != {'self.to_remove', 'self.to_insert'}:
        raise Unsupported('FixedLengthSequenceEdit.__init__: surplus slices not found')
    if conds != {'self.to_remove': 'len(from_node) > len(to_node)', 'self.to_insert': 'len(to_node) > len(from_node)'}:
        raise Unsupported(f'FixedLengthSequenceEdit.__init__: surplus conditions changed: {conds}')
    sym = Sym(leaves={'len(from_node)': Val('lf', 'Z'), 'len(to_node)': Val('lt', 'Z')})
    out = []
    for tgt, base in (('self.to_remove', 'from_node.children()'), ('self.to_insert', 'to_node.children()')):
        sub = found[tgt]
        if _norm(sub.value) != base or not isinstance(sub.slice, ast.Slice) or sub.slice.upper is not None \
                or sub.slice.step is not None or sub.slice.lower is None:
            raise Unsupported(f'{tgt} is not {base}[START:]')
        v = sym.expr(sub.slice.lower, {})
        if v.ty != 'Z':
            raise Unsupported('slice start is not an int')
        out.append(f'Definition {tgt[5:]}_start (lf lt : Z) : Z := {v.term}.   (* {base}[{_norm(sub.slice.lower)}:] *)')
    sub_edits = [s for s in ast.walk(f) if isinstance(s, ast.AnnAssign) and _norm(s.target) == 'self._sub_edits']
    if len(sub_edits) != 1 or ast.dump(sub_edits[0].value) != ast.dump(ast.parse(
            '[from_child.edits(to_child) for from_child, to_child in zip(from_node, to_node)]').body[0].value):
        raise Unsupported('FixedLengthSequenceEdit._sub_edits is no longer the positional zip')
    return '(* FixedLengthSequenceEdit.__init__: Python slice starts of the surplus tails *)\n' + '\n'.join(out) + '\n'


def gen_costs(tree):
    out = []
    for cls, args, leaves, name in (
            ('Replace', ['self', 'to_replace', 'replace_with'],
             {'to_replace.total_size': 'sa', 'replace_with.total_size': 'sb'}, 'replace_cost_gen (sa sb : Z)'),
            ('Remove', ['self', 'to_remove', 'remove_from', 'penalty'], {'to_remove.total_size': 'sx', 'penalty': 'penalty'},
             'remove_cost_gen (sx penalty : Z)'),
            ('Insert', ['self', 'to_insert', 'insert_into', 'penalty'], {'to_insert.total_size': 'sx', 'penalty': 'penalty'},
             'insert_cost_gen (sx penalty : Z)')):
        f = find_func(tree, cls + '.__init__')
        if [a.arg for a in f.args.args] != args:
            raise Unsupported(f'{cls}.__init__ signature changed')
        sym = Sym(leaves={k: Val(v, 'Z') for k, v in leaves.items()})
        env = {}
        cost = None
        for s in f.body:
            if isinstance(s, ast.Assign) and isinstance(s.targets[0], ast.Name):
                env[s.targets[0].id] = sym.expr(s.value, env)
            elif isinstance(s, ast.Expr) and isinstance(s.value, ast.Call) and _norm(s.value.func) == 'super().__init__':
                kw = {k.arg: k.value for k in s.value.keywords}
                cost = sym.expr(kw['cost'], env)
            else:
                raise Unsupported(f'{cls}.__init__: unexpected statement {_norm(s)[:60]}')
        if cost is None or cost.ty != 'Z':
            raise Unsupported(f'{cls}.__init__: cost not found')
        out.append(f'Definition {name} : Z := {cost.term}.')
        if cls != 'Replace':
            d = f.args.defaults
            if len(d) != 1 or not isinstance(d[0], ast.Constant) or d[0].value != 1:
                raise Unsupported(f'{cls}.__init__: default penalty is no longer 1')
    return '(* Replace/Remove/Insert.__init__ cost formulas (default penalty 1 checked) *)\n' + '\n'.join(out) + '\n'


def recognise(what, node_src, variants):
    for src_text, term in variants:
        if ast.dump(ast.parse(src_text.strip())) == ast.dump(ast.parse(node_src.strip())):
            return term
    raise Unsupported(f'{what}: source is none of the recognised variants:\n{node_src[:300]}')


def func_src(tree, qual):
    import textwrap
    return textwrap.dedent(ast.unparse(find_func(tree, qual)))


LEV_BODY = '''
def levenshtein_distance(s: str, t: str) -> int:
    rows = len(s) + 1
    cols = len(t) + 1
    dist: List[List[int]] = [[0] * cols for _ in range(rows)]
    for i in range(1, rows):
        dist[i][0] = i
    for i in range(1, cols):
        dist[0][i] = i
    col = row = 0
    for col in range(1, cols):
        for row in range(1, rows):
            if s[row - 1] == t[col - 1]:
                cost = 0
            else:
                cost = 1
            dist[row][col] = min(dist[row - 1][col] + 1, dist[row][col - 1] + 1, dist[row - 1][col - 1] + cost)
    return %s
'''

LEAF_EDITS = '''
def edits(self, node: TreeNode) -> Edit:
    if isinstance(node, LeafNode):
%s
    elif isinstance(node, ContainerNode):
        return Replace(self, node)
'''

MULTISET_BOUNDS_OLD = '''
def bounds(self) -> Range:
    b = self._matcher.bounds()
    for kvp_edit in self._matched_kvp_edits:
        b = b + kvp_edit.bounds()
    if len(self.to_remove) > len(self.to_insert):
        for edit in largest(*(Remove(to_remove=r, remove_from=self.from_node) for r in self.to_remove), n=len(self.to_remove) - len(self.to_insert), key=lambda e: e.bounds()):
            b = b + edit.bounds()
    elif len(self.to_remove) < len(self.to_insert):
        for edit in largest(*(Insert(to_insert=i, insert_into=self.from_node) for i in self.to_insert), n=len(self.to_insert) - len(self.to_remove), key=lambda e: e.bounds()):
            b = b + edit.bounds()
    return b
'''

MULTISET_BOUNDS_NEW = '''
def bounds(self) -> Range:
    b = self._matcher.bounds()
    for kvp_edit in self._matched_kvp_edits:
        b = b + kvp_edit.bounds()
    if self._matcher.is_complete():
        for edit in self._unmatched_edits():
            b = b + edit.bounds()
        return b
    num_remove = sum(self.to_remove.values())
    num_insert = sum(self.to_insert.values())
    if num_remove > num_insert:
        costs = sorted((Remove(to_remove=r, remove_from=self.from_node).bounds().upper_bound for r in self.to_remove.elements()))
    elif num_remove < num_insert:
        costs = sorted((Insert(to_insert=i, insert_into=self.from_node).bounds().upper_bound for i in self.to_insert.elements()))
    else:
        return b
    n = abs(num_remove - num_insert)
    return b + Range(sum(costs[:n]), sum(costs[-n:]))
'''


def strip_doc(fn):
    fn = ast.parse(ast.unparse(fn)).body[0]
    if fn.body and isinstance(fn.body[0], ast.Expr) and isinstance(fn.body[0].value, ast.Constant) \
            and isinstance(fn.body[0].value.value, str):
        fn.body = fn.body[1:]
    return ast.unparse(fn)


def gen_ed(repo):
    lev = ast.parse(src(repo, 'graphtage/levenshtein.py'))
    gg = ast.parse(src(repo, 'graphtage/graphtage.py'))
    seq = ast.parse(src(repo, 'graphtage/sequences.py'))
    eds = ast.parse(src(repo, 'graphtage/edits.py'))
    ms = ast.parse(src(repo, 'graphtage/multiset.py'))
    out = ['(* GENERATED by /verif/translator/gen_ed.py from graphtage/{levenshtein,graphtage,sequences,edits,multiset}.py; do not edit *)',
           'From Coq Require Import ZArith List Bool.', 'Require Import GT.PyBase GT.EdTypes.', 'Import ListNotations.',
           'Open Scope Z_scope.', '']
    out.append(gen_best_match(lev))
    out.append(gen_add_node(lev))
    out.append(gen_list_dispatch(gg))
    out.append(gen_surplus(seq))
    out.append(gen_costs(eds))
    stale = recognise('levenshtein_distance', strip_doc(find_func(lev, 'levenshtein_distance')),
                      [(LEV_BODY % 'dist[row][col]', 'true'), (LEV_BODY % 'dist[rows - 1][cols - 1]', 'false'),
                       (LEV_BODY % 'dist[-1][-1]', 'false'), (LEV_BODY % 'dist[len(s)][len(t)]', 'false')])
    out.append('(* levenshtein_distance: the dynamic programme is recognised unchanged; does it return the cell named by the\n'
               '   (possibly never assigned) loop variables? *)\n'
               f'Definition lev_returns_loop_var_cell : bool := {stale}.\n')
    adj = recognise('LeafNode.edits', strip_doc(find_func(gg, 'LeafNode.edits')),
                    [(LEAF_EDITS % '        return Match(self, node, levenshtein_distance(str(self.object), str(node.object)))', 'false false'),
                     (LEAF_EDITS % ('        cost = levenshtein_distance(str(self.object), str(node.object))\n'
                                    '        if cost == 0 and self != node:\n            cost = 1\n'
                                    '        return Match(self, node, cost)'), 'true false'),
                     (LEAF_EDITS % ('        cost = levenshtein_distance(str(self.object), str(node.object))\n'
                                    '        if cost == 0 and self != node:\n            cost = 1\n'
                                    '        cost = min(cost, max(self.total_size, node.total_size) + 1)\n'
                                    '        return Match(self, node, cost)'), 'true true')])
    adj, capped = adj.split()
    out.append('(* LeafNode.edits: is a zero distance between unequal leaves raised to 1? *)\n'
               f'Definition leaf_zero_cost_adjusted : bool := {adj}.\n')
    out.append('(* LeafNode.edits: is the cost of matching two leaves capped by the cost of replacing one with the other? *)\n'
               f'Definition leaf_match_cost_capped : bool := {capped}.\n')
    actual = recognise('MultiSetEdit.bounds', strip_doc(find_func(ms, 'MultiSetEdit.bounds')),
                       [(MULTISET_BOUNDS_OLD, 'false'), (MULTISET_BOUNDS_NEW, 'true')])
    out.append('(* MultiSetEdit.bounds once matched: cost of the ACTUAL unmatched nodes (true) or of the costliest ones (false) *)\n'
               f'Definition multiset_counts_actual_leftovers : bool := {actual}.\n')
    ce = find_func(gg, 'FixedKeyDictNode._child_edits')
    init = [s for s in ce.body if isinstance(s, ast.Assign) and _norm(s.targets[0]) == 'unshared_kvps']
    if len(init) != 1:
        raise Unsupported('FixedKeyDictNode._child_edits: unshared_kvps initialisation not found')
    order = recognise('unshared_kvps', _norm(init[0].value), [('set()', 'true'), ('[]', 'false'), ('list()', 'false')])
    out.append('(* FixedKeyDictNode._child_edits: are the removed pairs collected in a set (emitted in hash order)? *)\n'
               f'Definition fixed_dict_removals_in_hash_order : bool := {order}.\n')
    return '\n'.join(out)
