"""C20: fail-closed extraction of the error handlers of every graphtage Filetype and of main()'s error path.

`gen_handlers(repo)` returns the Gallina text of coq/gen/HandlersGen.v:

  handlers      : for every registered Filetype, the `except` clauses of the `build_tree_handling_errors`
                  it actually runs (found by reflection through the MRO, parsed with ast from /repo's
                  source): caught classes (fully qualified, resolved by evaluating the clause's
                  expression in the defining module) and the returned f-string as pieces
                  (literal | value expression, conversion, format spec);
  mro_table     : the Python exception class lattice (every loaded BaseException subclass with the
                  qualified names of its MRO), by reflection;
  attr_table    : which of the attributes read by handlers (plus a few candidates) instances of each
                  exception class have (class attribute/descriptor, or assigned unconditionally at the top
                  level of the effective Python __init__);
  main_err_first / main_err_second : the `if isinstance(X_tree, str): sys.stderr.write(..) ... return N`
                  blocks of main() (writes to stderr, writes to stdout, status, early return), checked
                  statement by statement;
  main_catches  : the `except` clauses of the try block of main() that surrounds them.

Anything of an unexpected shape raises py2coq.Unsupported (the generated file then does not compile and
every dependant proof fails: tie broken).
"""
import ast
import json
import os

import py2coq
from py2coq import Unsupported

# attributes probed on every exception class besides the ones handlers read
CANDIDATE_ATTRS = ['msg', 'lineno', 'colno', 'pos', 'reason', 'code', 'args']

CONV = {-1: 'CNone', 115: 'CStr', 114: 'CRepr'}


def cstr(s):
    """Gallina string literal; newlines are written literally (Coq strings have no escapes)."""
    if any((ord(c) > 126 or ord(c) < 32) and c != '\n' for c in s):
        raise Unsupported(f'non-printable string constant {s!r}')
    return '"' + s.replace('"', '""') + '"'


# ----------------------------------------------------------------------------- reflection

REFLECT_FILETYPES = r'''
import graphtage, inspect
out = []
for name, ft in graphtage.FILETYPES_BY_TYPENAME.items():
    cls = type(ft)
    owner = None
    for k in cls.__mro__:
        if 'build_tree_handling_errors' in k.__dict__:
            owner = k
            break
    f = owner.__dict__['build_tree_handling_errors']
    out.append({'name': name, 'cls': cls.__qualname__, 'owner': owner.__qualname__, 'module': owner.__module__,
                'file': os.path.realpath(inspect.getsourcefile(owner)),
                'abstract': bool(getattr(f, '__isabstractmethod__', False))})
print(json.dumps(out))
'''

REFLECT_LATTICE = r'''
import graphtage, importlib, inspect, ast, textwrap
import graphtage.__main__
import json as _j
req = _j.loads(%r)
def qn(c):
    return c.__module__ + '.' + c.__qualname__
resolved = []
for mod, expr in req['resolve']:
    m = importlib.import_module(mod)
    try:
        c = eval(expr, dict(vars(m)))
    except Exception as e:
        resolved.append({'error': type(e).__name__ + ': ' + str(e)})
        continue
    if not (isinstance(c, type) and issubclass(c, BaseException)):
        resolved.append({'error': 'not an exception class: ' + repr(c)})
        continue
    resolved.append({'qn': qn(c)})
seen = {}
def go(k):
    if k in seen.values():
        return
    n = qn(k)
    if n in seen and seen[n] is not k:
        raise SystemExit('two exception classes named ' + n)
    seen[n] = k
    for s in type.__subclasses__(k):
        go(s)
go(BaseException)
def init_sets(cls):
    for k in cls.__mro__:
        if '__init__' in k.__dict__:
            f = k.__dict__['__init__']
            if not inspect.isfunction(f):
                return []
            try:
                fn = ast.parse(textwrap.dedent(inspect.getsource(f))).body[0]
            except (OSError, TypeError, SyntaxError):
                return []
            if not fn.args.args:
                return []
            me = fn.args.args[0].arg
            got = []
            for s in fn.body:
                tg = s.targets if isinstance(s, ast.Assign) else [s.target] if isinstance(s, ast.AnnAssign) and s.value is not None else []
                for t in tg:
                    if isinstance(t, ast.Attribute) and isinstance(t.value, ast.Name) and t.value.id == me:
                        got.append(t.attr)
            return got
    return []
classes = []
for n in sorted(seen):
    k = seen[n]
    ini = init_sets(k)
    classes.append({'qn': n, 'mro': [qn(b) for b in k.__mro__ if b is not object],
                    'attrs': [a for a in req['attrs'] if hasattr(k, a) or a in ini],
                    'custom_format': k.__format__ is not object.__format__})
print(json.dumps({'resolved': resolved, 'classes': classes}))
'''


# ----------------------------------------------------------------------------- handlers (ast)

def self_build_tree_call(n):
    """`self.build_tree(path=path, options=options)` (keywords or positionals, nothing else)."""
    if not (isinstance(n, ast.Call) and ast.unparse(n.func) == 'self.build_tree'):
        return False
    got = [ast.unparse(a) for a in n.args] + [f'{k.arg}={ast.unparse(k.value)}' for k in n.keywords]
    return got in (['path=path', 'options=options'], ['path', 'options'], ['path', 'options=options'])


def strip_doc(body):
    if body and isinstance(body[0], ast.Expr) and isinstance(body[0].value, ast.Constant) \
            and isinstance(body[0].value.value, str):
        return body[1:]
    return body


def class_exprs(t, where):
    """The class expressions of an `except` clause, in order."""
    if t is None:
        return ['BaseException']            # a bare `except:`
    if isinstance(t, ast.Tuple):
        out = []
        for e in t.elts:
            out += class_exprs(e, where)
        return out
    if isinstance(t, (ast.Name, ast.Attribute)):
        return [ast.unparse(t)]
    raise Unsupported(f'except clause catches {ast.unparse(t)} ({where})')


def value_expr(n, exn_name, where):
    src = ast.unparse(n)
    if src == 'os.path.basename(path)':
        return 'EBasename'
    if src == 'path':
        return 'EPath'
    if exn_name is not None and isinstance(n, ast.Name) and n.id == exn_name:
        return 'EExn'
    if exn_name is not None and isinstance(n, ast.Attribute) and isinstance(n.value, ast.Name) \
            and n.value.id == exn_name:
        return ('EExnAttr', n.attr)
    raise Unsupported(f'formatted value {{{src}}} in error message ({where})')


def pieces_of(n, exn_name, where):
    """Pieces of the returned message: [('lit', text) | ('val', expr, conv, spec)]."""
    if isinstance(n, ast.Constant) and isinstance(n.value, str):
        return [('lit', n.value)]
    if not isinstance(n, ast.JoinedStr):
        raise Unsupported(f'handler returns {type(n).__name__}: {ast.unparse(n)[:60]} ({where})')
    out = []
    for v in n.values:
        if isinstance(v, ast.Constant) and isinstance(v.value, str):
            out.append(('lit', v.value))
            continue
        if not isinstance(v, ast.FormattedValue):
            raise Unsupported(f'f-string part {type(v).__name__} ({where})')
        if v.conversion not in CONV:
            raise Unsupported(f'conversion !{chr(v.conversion)} ({where})')
        spec = ''
        if v.format_spec is not None:
            if not (isinstance(v.format_spec, ast.JoinedStr)
                    and all(isinstance(p, ast.Constant) and isinstance(p.value, str) for p in v.format_spec.values)):
                raise Unsupported(f'computed format spec ({where})')
            spec = ''.join(p.value for p in v.format_spec.values)
        e = value_expr(v.value, exn_name, where)
        if spec != '' and not (e == 'EExn' and v.conversion == -1):
            # a spec applied to a str/int value would need the format mini-language: not modelled
            raise Unsupported(f'non-empty format spec {spec!r} on {ast.unparse(v.value)} ({where})')
        if e in ('EBasename', 'EPath') and v.conversion == 114:
            raise Unsupported(f'repr of the path in the error message is not modelled ({where})')
        out.append(('val', e, CONV[v.conversion], spec))
    return out


def parse_handler(fn, where):
    """Returns [(class expressions, exception name or None, pieces)] for a build_tree_handling_errors."""
    if [a.arg for a in fn.args.args][:2] != ['self', 'path']:
        raise Unsupported(f'signature of {where}')
    body = strip_doc(fn.body)
    if len(body) != 1:
        raise Unsupported(f'{where}: body of {len(body)} statements')
    s = body[0]
    if isinstance(s, ast.Return) and self_build_tree_call(s.value):
        return []                                # no try: every exception escapes
    if not isinstance(s, ast.Try) or s.orelse or s.finalbody:
        raise Unsupported(f'{where}: expected try/except, got {type(s).__name__}')
    if not (len(s.body) == 1 and isinstance(s.body[0], ast.Return) and self_build_tree_call(s.body[0].value)):
        raise Unsupported(f'{where}: try body is not `return self.build_tree(path=path, options=options)`')
    clauses = []
    for h in s.handlers:
        w = f'{where}, line {h.lineno}'
        hb = strip_doc(h.body)
        if len(hb) != 1 or not isinstance(hb[0], ast.Return) or hb[0].value is None:
            raise Unsupported(f'except body is not a single `return <message>` ({w})')
        clauses.append((class_exprs(h.type, w), h.name, pieces_of(hb[0].value, h.name, w)))
    return clauses


# ----------------------------------------------------------------------------- main() error path

def find_blocks(fn):
    """All statement lists inside a function (without descending into nested defs)."""
    todo, out = [fn.body], []
    while todo:
        b = todo.pop()
        out.append(b)
        for s in b:
            if isinstance(s, (ast.FunctionDef, ast.AsyncFunctionDef, ast.ClassDef)):
                continue
            for f in ('body', 'orelse', 'finalbody'):
                if getattr(s, f, None) and isinstance(getattr(s, f), list):
                    todo.append(getattr(s, f))
            for h in getattr(s, 'handlers', []):
                todo.append(h.body)
    return out


def parse_err_block(i, var):
    """Returns (writes to stderr, writes to stdout, status)."""
    writes = {'sys.stderr.write': [], 'sys.stdout.write': []}
    if i.orelse:
        raise Unsupported(f'main(): else branch on the isinstance({var}, str) test')
    for s in i.body[:-1]:
        if not (isinstance(s, ast.Expr) and isinstance(s.value, ast.Call)
                and ast.unparse(s.value.func) in writes and len(s.value.args) == 1 and not s.value.keywords):
            raise Unsupported(f'main(): statement in the {var} error block is not sys.stderr.write(..) / '
                              f'sys.stdout.write(..): {ast.unparse(s)[:60]}')
        a = s.value.args[0]
        w = writes[ast.unparse(s.value.func)]
        if isinstance(a, ast.Name) and a.id == var:
            w.append('WTree')
        elif isinstance(a, ast.Constant) and isinstance(a.value, str):
            w.append(f'(WLit {cstr(a.value)})')
        else:
            raise Unsupported(f'main(): {ast.unparse(s.value.func)}({ast.unparse(a)}) in the {var} error block')
    last = i.body[-1]
    if not (isinstance(last, ast.Return) and isinstance(last.value, ast.Constant) and type(last.value.value) is int):
        # without the early return main() would go on to diff a str: not modelled
        raise Unsupported(f'main(): the {var} error block does not end with `return <int>`')
    return writes['sys.stderr.write'], writes['sys.stdout.write'], last.value.value


def parse_main(repo):
    tree = ast.parse(py2coq.src(repo, 'graphtage/__main__.py'))
    main = py2coq.find_func(tree, 'main')
    want = {'from_tree': ('from_format', 'from_path'), 'to_tree': ('to_format', 'to_path')}
    found = None
    for b in find_blocks(main):
        idx = {}
        for k, s in enumerate(b):
            if isinstance(s, ast.Assign) and len(s.targets) == 1 and isinstance(s.targets[0], ast.Name) \
                    and s.targets[0].id in want:
                v = s.targets[0].id
                fmt, p = want[v]
                if ast.unparse(s.value) != f'{fmt}.build_tree_handling_errors({p}, options)':
                    raise Unsupported(f'main(): {v} = {ast.unparse(s.value)}')
                if ('a', v) in idx:
                    raise Unsupported(f'main(): {v} assigned twice')
                idx[('a', v)] = k
            if isinstance(s, ast.If) and isinstance(s.test, ast.Call) and ast.unparse(s.test.func) == 'isinstance':
                t = ast.unparse(s.test)
                for v in want:
                    if t == f'isinstance({v}, str)':
                        if ('i', v) in idx:
                            raise Unsupported(f'main(): two isinstance({v}, str) tests')
                        idx[('i', v)] = (k, s)
        if idx:
            if found is not None:
                raise Unsupported('main(): trees are loaded in more than one block')
            found = (b, idx)
    if found is None:
        raise Unsupported('main(): X_tree = X_format.build_tree_handling_errors(..) not found')
    b, idx = found
    for v in want:
        if ('a', v) not in idx or ('i', v) not in idx:
            raise Unsupported(f'main(): missing load or isinstance test of {v}')
    order = [idx[('a', 'from_tree')], idx[('i', 'from_tree')][0], idx[('a', 'to_tree')], idx[('i', 'to_tree')][0]]
    if order != sorted(order) or len(set(order)) != 4:
        raise Unsupported('main(): load/test order changed')
    # between a load and its test only progress-bar bookkeeping is allowed
    for lo, hi in ((order[0], order[1]), (order[2], order[3])):
        for s in b[lo + 1:hi]:
            u = ast.unparse(s)
            if not (u.startswith('t.desc = ') or u.startswith('t.update(')):
                raise Unsupported(f'main(): unexpected statement between load and test: {u[:60]}')
    first = parse_err_block(idx[('i', 'from_tree')][1], 'from_tree')
    second = parse_err_block(idx[('i', 'to_tree')][1], 'to_tree')
    # the enclosing try of main(): its except clauses decide what happens to an escaping exception
    tries = [s for s in main.body if isinstance(s, ast.Try) and any(b is blk for blk in find_blocks_of(s))]
    if len(tries) != 1:
        raise Unsupported('main(): the loads are not inside exactly one top-level try')
    catches = []
    for h in tries[0].handlers:
        hb = h.body
        if not (len(hb) == 1 and isinstance(hb[0], ast.Return) and ast.unparse(hb[0].value).lstrip('-').isdigit()):
            raise Unsupported(f'main(): except clause body (line {h.lineno})')
        catches.append((class_exprs(h.type, f'main(), line {h.lineno}'), int(ast.unparse(hb[0].value))))
    return first, second, catches


def find_blocks_of(stmt):
    class F:
        body = [stmt]
    return find_blocks(F)


# ----------------------------------------------------------------------------- assembly

def extract(repo):
    """Structured result (also used by the harness to know which attributes to record)."""
    fts = py2coq.reflect(repo, REFLECT_FILETYPES)
    parsed = {}
    resolve = []
    for ft in fts:
        if ft['abstract']:
            raise Unsupported(f'file type {ft["name"]} does not implement build_tree_handling_errors')
        rel = os.path.relpath(ft['file'], os.path.realpath(repo))
        if rel.startswith('..'):
            raise Unsupported(f'{ft["owner"]}.build_tree_handling_errors is defined outside the repository: {ft["file"]}')
        key = (rel, ft['owner'])
        if key not in parsed:
            tree = ast.parse(py2coq.src(repo, rel))
            fn = py2coq.find_func(tree, ft['owner'] + '.build_tree_handling_errors')
            parsed[key] = parse_handler(fn, f'{rel}:{ft["owner"]}')
        ft['clauses'] = parsed[key]
        for exprs, _, _ in ft['clauses']:
            for e in exprs:
                resolve.append((ft['module'], e))
    first, second, catches = parse_main(repo)
    for exprs, _ in catches:
        for e in exprs:
            resolve.append(('graphtage.__main__', e))
    attrs = list(CANDIDATE_ATTRS)
    for ft in fts:
        for _, _, ps in ft['clauses']:
            for p in ps:
                if p[0] == 'val' and isinstance(p[1], tuple) and p[1][1] not in attrs:
                    attrs.append(p[1][1])
    resolve = sorted(set(resolve))
    info = py2coq.reflect(repo, REFLECT_LATTICE % json.dumps({'resolve': resolve, 'attrs': attrs}))
    rmap = {}
    for (mod, e), r in zip(resolve, info['resolved']):
        if 'error' in r:
            raise Unsupported(f'cannot resolve exception class {e} in {mod}: {r["error"]}')
        rmap[(mod, e)] = r['qn']
    known = {c['qn'] for c in info['classes']}
    for q in rmap.values():
        if q not in known:
            raise Unsupported(f'caught class {q} is not in the reflected lattice')
    uses_spec = False
    for ft in fts:
        ft['resolved'] = [([rmap[(ft['module'], e)] for e in exprs], name, ps) for exprs, name, ps in ft['clauses']]
        uses_spec |= any(p[0] == 'val' and p[3] != '' for _, _, ps in ft['clauses'] for p in ps)
    custom = [c['qn'] for c in info['classes'] if c['custom_format']]
    if uses_spec and custom:
        # the model's rule "non-empty spec on an exception object -> TypeError" is object.__format__'s
        raise Unsupported(f'exception classes with their own __format__: {custom[:3]}')
    return {'filetypes': fts, 'classes': info['classes'], 'attrs': attrs,
            'main': {'first': first, 'second': second,
                     'catches': [([rmap[('graphtage.__main__', e)] for e in exprs], st) for exprs, st in catches]}}


def piece_term(p):
    if p[0] == 'lit':
        return f'PLit {cstr(p[1])}'
    e = p[1] if isinstance(p[1], str) else f'(EExnAttr {cstr(p[1][1])})'
    return f'PVal {e} {p[2]} {cstr(p[3])}'


def gen_handlers(repo):
    x = extract(repo)
    out = ['(* GENERATED by /verif/translator/gen_handlers.py from the build_tree_handling_errors methods of '
           'graphtage/{json,yaml,xml,plist,csv,pickle}.py, main() of graphtage/__main__.py and by reflection '
           'on the exception classes; do not edit *)',
           'From Coq Require Import String List Bool ZArith.', 'Require Import GT.PyBase GT.HandlersSpec.',
           'Import ListNotations.', 'Open Scope string_scope.', '']
    out.append('(* file type -> except clauses (caught classes, message pieces), in source order *)')
    rows = []
    for ft in x['filetypes']:
        cl = []
        for classes, _, ps in ft['resolved']:
            cl.append('{| cl_classes := [' + '; '.join(cstr(c) for c in classes) + '];\n       cl_pieces := ['
                      + ';\n                     '.join(piece_term(p) for p in ps) + '] |}')
        rows.append(f'  (* {ft["module"]}.{ft["owner"]} *)\n  ({cstr(ft["name"])}, [\n    ' + ';\n    '.join(cl) + '])')
    out.append('Definition handlers : list (string * list clause) := [\n' + ';\n'.join(rows) + '].')
    out.append('')
    out.append('(* exception class -> its MRO (without object), by reflection *)')
    out.append('Definition mro_table : list (string * list string) := [\n' + ';\n'.join(
        f'  ({cstr(c["qn"])}, [' + '; '.join(cstr(m) for m in c['mro']) + '])' for c in x['classes']) + '].')
    out.append('')
    out.append('(* exception class -> attributes its instances have, among: ' + ' '.join(x['attrs']) + ' *)')
    out.append('Definition attr_table : list (string * list string) := [\n' + ';\n'.join(
        f'  ({cstr(c["qn"])}, [' + '; '.join(cstr(a) for a in c['attrs']) + '])' for c in x['classes'] if c['attrs']) + '].')
    out.append('')
    for nm, (writes, outs, status) in (('first', x['main']['first']), ('second', x['main']['second'])):
        out.append(f'Definition main_err_{nm} : main_err :=\n  {{| me_writes := [' + '; '.join(writes)
                   + '];\n     me_stdout := [' + '; '.join(outs)
                   + f']; me_status := ({status})%Z; me_skips_diff := true |}}.')
    out.append('Definition main_catches : list (list string * Z) := [' + '; '.join(
        '([' + '; '.join(cstr(c) for c in cs) + f'], ({st})%Z)' for cs, st in x['main']['catches']) + '].')
    return '\n'.join(out) + '\n'


if __name__ == '__main__':
    import sys
    print(gen_handlers(sys.argv[1] if len(sys.argv) > 1 else '/repo'))
