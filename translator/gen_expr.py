"""C19: fail-closed translation of the security-relevant parts of graphtage/expressions.py.

Re-extracted from /repo's working tree on every run:
  (a) the guard of `get_member`  ->  `member_allowed : string -> bool`  (translated from the AST of the
      conditions under which a member access is refused), plus the fact that the only thing it returns
      is `getattr(obj, member.name)`;
  (b) the key set of DEFAULT_GLOBALS  ->  `whitelist : list string`;
  (c) the `Operator` enum  ->  `operators : list opdef` (name, token, priority, associativity, arity,
      expand flags, number of lambda parameters, and what the `execute` lambda does, as an `opsem`).
Anything of unexpected shape raises py2coq.Unsupported (the generated file then does not compile).
Also refuses a module in which getattr / eval / exec / vars / __import__ ... is called anywhere outside
get_member, and checks the resolution order of Expression.get_value (locals, then globals, else KeyError).
"""
import ast
import builtins

import py2coq
from py2coq import Unsupported, coq_string, find_func, src

REL = 'graphtage/expressions.py'
DANGEROUS_CALLS = {'getattr', 'setattr', 'delattr', 'hasattr', 'eval', 'exec', 'vars', 'dir', 'globals', 'locals',
                   '__import__', 'compile', 'open', 'breakpoint', 'input'}


def cstr(s):
    """Coq string literal; non-ASCII characters are written as \\uXXXX escapes (plain text)."""
    return coq_string(s.encode('unicode_escape').decode('ascii'))


# ----------------------------------------------------------------------------- (a) the guard

def guard_cond(n, member, where):
    """Translate a refusal condition over `<member>.name` into a Gallina bool over `name`.
    Returns ('ident', None) for the `not isinstance(member, IdentifierToken)` test."""
    u = ast.unparse(n)
    mname = f'{member}.name'
    if isinstance(n, ast.UnaryOp) and isinstance(n.op, ast.Not):
        inner = n.operand
        if ast.unparse(inner) == f'isinstance({member}, IdentifierToken)':
            return ('ident', None)
        k, t = guard_cond(inner, member, where)
        if k != 'name':
            raise Unsupported(f'get_member guard {u} ({where})')
        return ('name', f'(negb {t})')
    if isinstance(n, ast.BoolOp):
        parts = [guard_cond(v, member, where) for v in n.values]
        if any(k != 'name' for k, _ in parts):
            raise Unsupported(f'get_member guard mixes the identifier test into a boolean operator: {u}')
        op = 'orb' if isinstance(n.op, ast.Or) else 'andb'
        t = parts[0][1]
        for _, p in parts[1:]:
            t = f'({op} {t} {p})'
        return ('name', t)
    if isinstance(n, ast.Call) and isinstance(n.func, ast.Attribute) and ast.unparse(n.func.value) == mname \
            and not n.keywords and len(n.args) == 1:
        meth = n.func.attr
        a = n.args[0]
        consts = None
        if isinstance(a, ast.Constant) and isinstance(a.value, str):
            consts = [a.value]
        elif isinstance(a, ast.Tuple) and all(isinstance(e, ast.Constant) and isinstance(e.value, str) for e in a.elts):
            consts = [e.value for e in a.elts]
        if consts is not None and meth in ('startswith', 'endswith'):
            fn = {'startswith': 'py_startswith', 'endswith': 'py_endswith'}[meth]
            t = 'false'
            for c in reversed(consts):
                t = f'(orb ({fn} name {cstr(c)}) {t})' if t != 'false' else f'({fn} name {cstr(c)})'
            return ('name', t)
        raise Unsupported(f'get_member guard call {u} ({where})')
    if isinstance(n, ast.Compare) and len(n.ops) == 1 and ast.unparse(n.left) == mname:
        op, r = n.ops[0], n.comparators[0]
        if isinstance(op, (ast.Eq, ast.NotEq)) and isinstance(r, ast.Constant) and isinstance(r.value, str):
            t = f'(String.eqb name {cstr(r.value)})'
            return ('name', t if isinstance(op, ast.Eq) else f'(negb {t})')
        if isinstance(op, (ast.In, ast.NotIn)) and isinstance(r, (ast.Tuple, ast.List, ast.Set)) \
                and all(isinstance(e, ast.Constant) and isinstance(e.value, str) for e in r.elts):
            t = '(mem_str name [' + '; '.join(cstr(e.value) for e in r.elts) + '])'
            return ('name', t if isinstance(op, ast.In) else f'(negb {t})')
        raise Unsupported(f'get_member guard comparison {u} ({where})')
    raise Unsupported(f'get_member guard {type(n).__name__}: {u} ({where})')


def translate_guard(tree):
    f = find_func(tree, 'get_member')
    if [a.arg for a in f.args.args] != ['obj', 'member'] or f.args.vararg or f.args.kwarg or f.args.kwonlyargs:
        raise Unsupported('get_member signature changed')
    body = list(f.body)
    if body and isinstance(body[0], ast.Expr) and isinstance(body[0].value, ast.Constant):
        body = body[1:]
    if not body or not isinstance(body[-1], ast.Return) or \
            ast.unparse(body[-1].value) != 'getattr(obj, member.name)':
        raise Unsupported('get_member no longer ends in `return getattr(obj, member.name)`')
    denies, ident_test = [], False
    for s in body[:-1]:
        if not (isinstance(s, ast.If) and not s.orelse and len(s.body) == 1 and isinstance(s.body[0], ast.Raise)):
            raise Unsupported(f'get_member: statement of unexpected shape (line {s.lineno}): {ast.unparse(s)[:80]}')
        exc = s.body[0].exc
        if not (isinstance(exc, ast.Call) and ast.unparse(exc.func) == 'ParseError'):
            raise Unsupported(f'get_member raises {ast.unparse(exc)[:60]} (line {s.lineno})')
        k, t = guard_cond(s.test, 'member', f'line {s.lineno}')
        if k == 'ident':
            if denies:
                raise Unsupported('get_member tests the member type after reading member.name')
            ident_test = True
        else:
            denies.append(t)
    if not ident_test:
        raise Unsupported('get_member no longer refuses non-identifier members first')
    t = 'false'
    for d in reversed(denies):
        t = d if t == 'false' else f'(orb {d} {t})'
    return t, len(denies)


# ----------------------------------------------------------------------------- (b) DEFAULT_GLOBALS

def translate_globals(tree):
    node = None
    for s in tree.body:
        tgt = None
        if isinstance(s, ast.AnnAssign) and isinstance(s.target, ast.Name):
            tgt, val = s.target.id, s.value
        elif isinstance(s, ast.Assign) and len(s.targets) == 1 and isinstance(s.targets[0], ast.Name):
            tgt, val = s.targets[0].id, s.value
        if tgt == 'DEFAULT_GLOBALS':
            if node is not None:
                raise Unsupported('DEFAULT_GLOBALS assigned twice')
            node = val
    if node is None:
        raise Unsupported('DEFAULT_GLOBALS not found')
    # any later mutation of the table?
    for n in ast.walk(tree):
        if isinstance(n, (ast.Subscript, ast.Attribute)) and isinstance(getattr(n, 'ctx', None), (ast.Store, ast.Del)) \
                and 'DEFAULT_GLOBALS' in ast.unparse(n):
            raise Unsupported(f'DEFAULT_GLOBALS is mutated (line {n.lineno})')
        if isinstance(n, ast.Call) and isinstance(n.func, ast.Attribute) and ast.unparse(n.func.value) == 'DEFAULT_GLOBALS' \
                and n.func.attr in ('update', 'setdefault', 'pop', 'popitem', 'clear', '__setitem__'):
            raise Unsupported(f'DEFAULT_GLOBALS is mutated (line {n.lineno})')
    names = []
    if isinstance(node, ast.DictComp):
        if ast.unparse(node.key) != 'obj.__name__' or ast.unparse(node.value) != 'obj' or len(node.generators) != 1:
            raise Unsupported('DEFAULT_GLOBALS comprehension of unexpected shape')
        g = node.generators[0]
        if ast.unparse(g.target) != 'obj' or g.ifs or not isinstance(g.iter, (ast.Tuple, ast.List)):
            raise Unsupported('DEFAULT_GLOBALS comprehension of unexpected shape')
        for e in g.iter.elts:
            if not isinstance(e, ast.Name):
                raise Unsupported(f'DEFAULT_GLOBALS element {ast.unparse(e)}')
            obj = getattr(builtins, e.id, None)
            if obj is None or getattr(obj, '__name__', None) != e.id:
                raise Unsupported(f'DEFAULT_GLOBALS element {e.id} is not a builtin named {e.id}')
            names.append(e.id)
    elif isinstance(node, ast.Dict):
        for k, v in zip(node.keys, node.values):
            if not (isinstance(k, ast.Constant) and isinstance(k.value, str) and isinstance(v, ast.Name)
                    and v.id == k.value and getattr(getattr(builtins, v.id, None), '__name__', None) == v.id):
                raise Unsupported(f'DEFAULT_GLOBALS entry {ast.unparse(k) if k else "**"}: {ast.unparse(v)}')
            names.append(k.value)
    else:
        raise Unsupported(f'DEFAULT_GLOBALS is a {type(node).__name__}')
    out = []
    for n in names:
        if n not in out:
            out.append(n)
    return out


# ----------------------------------------------------------------------------- (c) the operator table

UNOPS = {ast.UAdd: 'UPos', ast.USub: 'UNeg', ast.Invert: 'UInvert', ast.Not: 'UNot'}
BINOPS = {ast.Mult: 'BMul', ast.Div: 'BDiv', ast.FloorDiv: 'BFloorDiv', ast.Mod: 'BMod', ast.Add: 'BAdd',
          ast.Sub: 'BSub', ast.LShift: 'BLShift', ast.RShift: 'BRShift', ast.BitAnd: 'BBitAnd',
          ast.BitXor: 'BBitXor', ast.BitOr: 'BBitOr'}
CMPOPS = {ast.In: 'CIn', ast.Lt: 'CLt', ast.Gt: 'CGt', ast.LtE: 'CLe', ast.GtE: 'CGe', ast.Eq: 'CEq', ast.NotEq: 'CNe'}


def lambda_sem(lam, opname):
    if not isinstance(lam, ast.Lambda):
        raise Unsupported(f'Operator.{opname}: execute is not a lambda')
    a = lam.args
    if a.vararg or a.kwarg or a.kwonlyargs or a.defaults or a.posonlyargs:
        raise Unsupported(f'Operator.{opname}: lambda signature')
    params = [x.arg for x in a.args]
    b = lam.body
    u = ast.unparse(b)

    def is_p(n, i):
        return isinstance(n, ast.Name) and i < len(params) and n.id == params[i]
    if len(params) == 1:
        if is_p(b, 0):
            return 1, 'SUn UId'
        if isinstance(b, ast.UnaryOp) and type(b.op) in UNOPS and is_p(b.operand, 0):
            return 1, 'SUn ' + UNOPS[type(b.op)]
    elif len(params) == 2:
        if isinstance(b, ast.Call) and ast.unparse(b.func) == 'get_member' and not b.keywords and len(b.args) == 2 \
                and is_p(b.args[0], 0) and is_p(b.args[1], 1):
            return 2, 'SMember'
        if isinstance(b, ast.Subscript) and is_p(b.value, 0) and is_p(b.slice, 1):
            return 2, 'SGetitem'
        if isinstance(b, ast.Call) and is_p(b.func, 0) and not b.keywords and len(b.args) == 1 \
                and isinstance(b.args[0], ast.Starred) and is_p(b.args[0].value, 1):
            return 2, 'SCall'
        if isinstance(b, ast.BinOp) and type(b.op) in BINOPS and is_p(b.left, 0) and is_p(b.right, 1):
            return 2, 'SBin ' + BINOPS[type(b.op)]
        if isinstance(b, ast.Compare) and len(b.ops) == 1 and type(b.ops[0]) in CMPOPS and is_p(b.left, 0) \
                and is_p(b.comparators[0], 1):
            return 2, 'SCmp ' + CMPOPS[type(b.ops[0])]
        if isinstance(b, ast.BoolOp) and len(b.values) == 2 and is_p(b.values[0], 0) and is_p(b.values[1], 1):
            return 2, 'SAnd' if isinstance(b.op, ast.And) else 'SOr'
        if isinstance(b, ast.Tuple) and len(b.elts) == 2 and is_p(b.elts[0], 0) and is_p(b.elts[1], 1):
            return 2, 'SPair'
        if isinstance(b, ast.Subscript) and is_p(b.value, 1) and ast.unparse(b.slice) == f'bool({params[0]})':
            return 2, 'STernary'
    raise Unsupported(f'Operator.{opname}: execute lambda {u!r} is outside the modelled operator semantics')


def const(n, ty, what):
    if isinstance(n, ast.Constant) and type(n.value) is ty:
        return n.value
    raise Unsupported(f'{what}: expected a {ty.__name__} constant, found {ast.unparse(n)}')


def translate_operators(tree):
    cls = find_func(tree, 'Operator')
    if not isinstance(cls, ast.ClassDef) or [ast.unparse(b) for b in cls.bases] != ['Enum']:
        raise Unsupported('Operator is not an Enum class')
    init = None
    members = []
    for s in cls.body:
        if isinstance(s, ast.Expr) and isinstance(s.value, ast.Constant):
            continue
        if isinstance(s, ast.FunctionDef):
            if s.name != '__init__':
                raise Unsupported(f'Operator has a method {s.name}')
            init = s
            continue
        if isinstance(s, ast.Assign) and len(s.targets) == 1 and isinstance(s.targets[0], ast.Name) \
                and isinstance(s.value, ast.Tuple):
            members.append((s.targets[0].id, s.value.elts))
            continue
        raise Unsupported(f'Operator body statement (line {s.lineno}): {ast.unparse(s)[:60]}')
    if init is None:
        raise Unsupported('Operator.__init__ not found')
    pnames = [a.arg for a in init.args.args]
    if pnames != ['self', 'token', 'priority', 'execute', 'is_left_associative', 'arity',
                  'include_in_global_operator_table', 'expand']:
        raise Unsupported('Operator.__init__ signature changed: ' + ', '.join(pnames))
    dflt = [ast.unparse(d) for d in init.args.defaults]
    if dflt != ['True', '2', 'False', 'None']:
        raise Unsupported('Operator.__init__ defaults changed: ' + ', '.join(dflt))
    # the default of `expand` must still be (True,) * arity
    init_src = ast.unparse(init)
    if 'self.expand: Tuple[bool, ...] = (True,) * self.arity' not in init_src or \
            'self.arity: int = arity' not in init_src or 'self.execute: Callable[[Any, Any], Any] = execute' not in init_src:
        raise Unsupported('Operator.__init__ body changed (arity / expand / execute assignment)')
    rows = []
    for name, elts in members:
        if not 3 <= len(elts) <= 7:
            raise Unsupported(f'Operator.{name}: tuple of length {len(elts)}')
        tok = const(elts[0], str, f'Operator.{name} token')
        prio = const(elts[1], int, f'Operator.{name} priority')
        left = const(elts[3], bool, f'Operator.{name} associativity') if len(elts) > 3 else True
        arity = const(elts[4], int, f'Operator.{name} arity') if len(elts) > 4 else 2
        glob = const(elts[5], bool, f'Operator.{name} table flag') if len(elts) > 5 else False
        if len(elts) > 6:
            if not isinstance(elts[6], ast.Tuple):
                raise Unsupported(f'Operator.{name}: expand is not a tuple')
            expand = [const(e, bool, f'Operator.{name} expand') for e in elts[6].elts]
        else:
            expand = [True] * arity
        nparams, sem = lambda_sem(elts[2], name)
        if arity < 1:
            raise Unsupported(f'Operator.{name}: arity {arity}')
        rows.append((name, tok, prio, left, arity, glob, expand, nparams, sem))
    if not rows:
        raise Unsupported('Operator enum is empty')
    return rows


# ----------------------------------------------------------------------------- module-wide checks

def check_module(tree):
    gm = find_func(tree, 'get_member')
    inside = {id(n) for n in ast.walk(gm)}
    for n in ast.walk(tree):
        if isinstance(n, ast.Call) and id(n) not in inside:
            f = n.func
            nm = f.id if isinstance(f, ast.Name) else (f.attr if isinstance(f, ast.Attribute) else None)
            if nm in DANGEROUS_CALLS or nm in ('__getattribute__', '__getattr__', '__dict__'):
                raise Unsupported(f'{nm}(...) is called outside get_member (line {n.lineno})')
    # get_value: numeric -> value, string -> raw_token, identifier -> locals, then globals, else KeyError
    gv = find_func(tree, 'Expression.get_value')
    if [a.arg for a in gv.args.args] != ['token', 'locals', 'globals']:
        raise Unsupported('Expression.get_value signature changed')
    body = [s for s in gv.body if not (isinstance(s, ast.Expr) and isinstance(s.value, ast.Constant))]
    want = ("if isinstance(token, NumericToken):\n    return token.value\n"
            "elif isinstance(token, StringToken):\n    return token.raw_token\n"
            "elif isinstance(token, IdentifierToken):\n"
            "    if token.name in locals:\n        return locals[token.name]\n"
            "    elif token.name in globals:\n        return globals[token.name]\n"
            "    else:\n        raise KeyError(f'Unknown identifier {token.name}')\n"
            "elif isinstance(token, Token):\n    raise ValueError(f'Unexpected token {token!r}')\n"
            "else:\n    return token")
    if len(body) != 1 or ast.unparse(body[0]) != want:
        raise Unsupported('Expression.get_value changed (the model restates it; re-audit ExprModel.get_value)')
    ev = find_func(tree, 'Expression.eval')
    es = ast.unparse(ev)
    for frag in ('if globals is None:\n        globals: Dict[str, Any] = DEFAULT_GLOBALS',
                 'if locals is None:\n        locals: Dict[str, Any] = {}'):
        if frag not in es:
            raise Unsupported('Expression.eval no longer defaults locals/globals as modelled')


def gen_expr(repo):
    tree = ast.parse(src(repo, REL))
    check_module(tree)
    guard, n_denies = translate_guard(tree)
    names = translate_globals(tree)
    rows = translate_operators(tree)
    out = ['(* GENERATED by /verif/translator/gen_expr.py from graphtage/expressions.py; do not edit *)',
           'From Coq Require Import String List Bool ZArith.', 'Require Import GT.PyBase GT.ExprSpec.',
           'Import ListNotations.', 'Open Scope string_scope.', '',
           'Definition py_startswith (s p : string) : bool := String.prefix p s.',
           'Definition py_endswith (s p : string) : bool :=',
           '  let n := String.length s in let k := String.length p in',
           '  Nat.leb k n && String.eqb (String.substring (n - k) k s) p.', '',
           '(* get_member(obj, member): refuses non-identifier members first, then refuses the names below,',
           '   then returns getattr(obj, member.name) *)',
           f'Definition member_denied (name : string) : bool :=\n  {guard}.',
           'Definition member_allowed (name : string) : bool := negb (member_denied name).',
           f'Definition guard_clauses : nat := {n_denies}.', '',
           '(* keys of DEFAULT_GLOBALS, each bound to the Python builtin of the same name *)',
           'Definition whitelist : list string :=\n  [' + '; '.join(cstr(n) for n in names) + '].', '',
           '(* the Operator enum: name, token, priority, left-assoc, arity, global-table flag, expand, lambda params, semantics *)',
           'Definition operators : list opdef := [']
    lines = []
    for name, tok, prio, left, arity, glob, expand, nparams, sem in rows:
        b = lambda x: 'true' if x else 'false'
        lines.append(f'  Build_opdef {cstr(name)} {cstr(tok)} ({prio})%Z {b(left)} {arity} {b(glob)} '
                     f'[{"; ".join(b(e) for e in expand)}] {nparams} ({sem})')
    out.append(';\n'.join(lines))
    out.append('].')
    return '\n'.join(out) + '\n'


if __name__ == '__main__':
    import sys
    print(gen_expr(sys.argv[1] if len(sys.argv) > 1 else '/repo'))
